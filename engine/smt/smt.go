// Package smt keeps solver processes alive and feeds them SMT-LIB2 text.
package smt

import (
	"bufio"
	"fmt"
	"io"
	"math/rand"
	"os/exec"
	"strconv"
	"strings"
	"syscall"
	"time"

	"verif/engine/term"
)

type Result int

const (
	Unsat Result = iota
	Sat
	Unknown
)

func (r Result) String() string { return [...]string{"unsat", "sat", "unknown"}[r] }

type Kind int

const (
	Z3 Kind = iota
	Z3New
	CVC5
)

func (k Kind) String() string { return [...]string{"z3-4.8.12", "z3-5.1.0", "cvc5-1.0"}[k] }

type proc struct {
	kind  Kind
	cmd   *exec.Cmd
	in    io.WriteCloser
	out   *bufio.Reader
	tmoMS int
	lines chan lineOrErr // filled by a reader goroutine (lets Check enforce a hard wall-clock limit)
}

type lineOrErr struct {
	s   string
	err error
}

func startProc(kind Kind, timeoutMS int) (*proc, error) {
	var cmd *exec.Cmd
	switch kind {
	case Z3:
		cmd = exec.Command("/usr/bin/z3", "-in")
	case Z3New:
		cmd = exec.Command("z3-new", "-in")
	case CVC5:
		cmd = exec.Command("cvc5", "--incremental", "--produce-models", fmt.Sprintf("--tlimit-per=%d", timeoutMS))
	}
	// the solver must not outlive the checker (a killed or timed-out check would otherwise leave solvers spinning on
	// their last query)
	cmd.SysProcAttr = &syscall.SysProcAttr{Pdeathsig: syscall.SIGKILL}
	in, err := cmd.StdinPipe()
	if err != nil {
		return nil, err
	}
	out, err := cmd.StdoutPipe()
	if err != nil {
		return nil, err
	}
	cmd.Stderr = cmd.Stdout
	if err := cmd.Start(); err != nil {
		return nil, err
	}
	p := &proc{kind: kind, cmd: cmd, in: in, out: bufio.NewReaderSize(out, 1<<16), tmoMS: timeoutMS, lines: make(chan lineOrErr, 64)}
	go func() {
		for {
			l, err := p.out.ReadString('\n')
			p.lines <- lineOrErr{l, err}
			if err != nil {
				close(p.lines)
				return
			}
		}
	}()
	return p, nil
}

func (p *proc) send(s string) error {
	_, err := io.WriteString(p.in, s)
	return err
}

var errHardTimeout = fmt.Errorf("solver exceeded the hard wall-clock limit")

// rawLine returns the next output line; the solver's own timeout is backed by a hard limit of twice that time.
func (p *proc) rawLine() (string, error) {
	limit := time.Duration(2*p.tmoMS+5000) * time.Millisecond
	select {
	case le, ok := <-p.lines:
		if !ok {
			return "", io.EOF
		}
		return le.s, le.err
	case <-time.After(limit):
		return "", errHardTimeout
	}
}

func (p *proc) readLine() (string, error) {
	l, err := p.rawLine()
	return strings.TrimSpace(l), err
}

// readSexp reads a balanced s-expression (possibly over many lines).
func (p *proc) readSexp() (string, error) {
	var sb strings.Builder
	depth := 0
	started := false
	for {
		l, err := p.rawLine()
		sb.WriteString(l)
		for _, ch := range l {
			if ch == '(' {
				depth++
				started = true
			} else if ch == ')' {
				depth--
			}
		}
		if err != nil {
			return sb.String(), err
		}
		if started && depth <= 0 {
			return sb.String(), nil
		}
		if !started && strings.TrimSpace(l) != "" {
			return sb.String(), nil
		}
	}
}

func (p *proc) kill() {
	if p == nil {
		return
	}
	p.in.Close()
	p.cmd.Process.Kill()
	p.cmd.Wait()
}

func (p *proc) preamble() string {
	switch p.kind {
	case CVC5:
		return "(set-logic ALL)\n"
	default:
		return fmt.Sprintf("(set-option :timeout %d)\n", p.tmoMS)
	}
}

// Stats accumulated per solver.
type Stats struct {
	Sat, Unsat, Unknown int
	Errors              int
	Time                time.Duration
	CrossQueries        int
	CrossDisagree       int
	CrossNoVerdict      int
	CrossDetail         []string
	MaxQuery            time.Duration
}

// Solver is one incremental session mirroring a path condition.
type Solver struct {
	p          *proc
	TimeoutMS  int
	defined    map[int]bool
	declared   map[string]bool
	transcript []string // declarations/definitions/asserts since last reset
	St         Stats
	cross      []*proc // extra solvers for cross checking
	CrossEvery int     // unused (kept for compatibility)
	// reservoir sample of decided queries, cross-checked after the run by the other solvers (one-shot processes)
	SampleK   int
	Samples   []SampledQuery
	sampleRng *rand.Rand
	nq        int
	Log       io.Writer
}

// Primary selects the deciding solver (the other two are used for cross-checking).
var Primary = Z3New

func New(timeoutMS int) (*Solver, error) {
	p, err := startProc(Primary, timeoutMS)
	if err != nil {
		return nil, err
	}
	s := &Solver{p: p, TimeoutMS: timeoutMS}
	s.Reset()
	return s, nil
}

// EnableCross starts z3-new and cvc5 for cross-checking.
func (s *Solver) EnableCross(every int, timeoutMS int) {
	s.CrossEvery = every
	for _, k := range []Kind{Z3, Z3New, CVC5} {
		if k == Primary {
			continue
		}
		if p, err := startProc(k, timeoutMS); err == nil {
			s.cross = append(s.cross, p)
		}
	}
}

func (s *Solver) Close() {
	s.p.kill()
	for _, p := range s.cross {
		p.kill()
	}
}

func (s *Solver) restart() {
	s.p.kill()
	p, err := startProc(Primary, s.TimeoutMS)
	if err != nil {
		panic(err)
	}
	s.p = p
}

func (s *Solver) Reset() {
	s.defined = map[int]bool{}
	s.declared = map[string]bool{}
	s.transcript = s.transcript[:0]
	s.raw("(reset)\n" + s.p.preamble())
}

func (s *Solver) raw(txt string) {
	if s.Log != nil {
		io.WriteString(s.Log, txt)
	}
	if err := s.p.send(txt); err != nil {
		// solver died; restart and replay transcript
		s.restart()
		s.p.send("(reset)\n" + s.p.preamble() + strings.Join(s.transcript, ""))
		s.p.send(txt)
	}
}

func (s *Solver) emit(txt string) {
	s.transcript = append(s.transcript, txt)
	s.raw(txt)
}

// define makes sure t (and its sub-terms) can be referred to by Ref(t).
func (s *Solver) define(t *term.Term) {
	switch t.Op {
	case term.OpConst:
		return
	case term.OpVar:
		if !s.declared[t.Name] {
			s.declared[t.Name] = true
			s.emit(fmt.Sprintf("(declare-const |%s| %s)\n", t.Name, t.S.SMT()))
		}
		return
	}
	if s.defined[t.ID] {
		return
	}
	// iterative post-order to avoid deep recursion
	type fr struct {
		t *term.Term
		i int
	}
	st := []fr{{t, 0}}
	for len(st) > 0 {
		f := &st[len(st)-1]
		if f.i < len(f.t.Args) {
			a := f.t.Args[f.i]
			f.i++
			switch a.Op {
			case term.OpConst:
			case term.OpVar:
				if !s.declared[a.Name] {
					s.declared[a.Name] = true
					s.emit(fmt.Sprintf("(declare-const |%s| %s)\n", a.Name, a.S.SMT()))
				}
			default:
				if !s.defined[a.ID] {
					st = append(st, fr{a, 0})
				}
			}
			continue
		}
		if !s.defined[f.t.ID] {
			s.defined[f.t.ID] = true
			s.emit(fmt.Sprintf("(define-fun t%d () %s %s)\n", f.t.ID, f.t.S.SMT(), term.Body(f.t)))
		}
		st = st[:len(st)-1]
	}
}

// Assert adds t permanently (until Reset).
func (s *Solver) Assert(t *term.Term) {
	if t.IsTrue() {
		return
	}
	s.define(t)
	s.emit(fmt.Sprintf("(assert %s)\n", term.Ref(t)))
}

// Check asks whether the asserted formulas together with extra are satisfiable.
// If model is non-nil and the answer is sat, values of the listed variables are returned.
func (s *Solver) Check(extra *term.Term, vars []*term.Term) (Result, map[string]uint64) {
	if extra != nil {
		if extra.IsFalse() {
			return Unsat, nil
		}
		s.define(extra)
	}
	for _, v := range vars {
		s.define(v)
	}
	var q strings.Builder
	q.WriteString("(push 1)\n")
	if extra != nil && !extra.IsTrue() {
		fmt.Fprintf(&q, "(assert %s)\n", term.Ref(extra))
	}
	q.WriteString("(check-sat)\n")
	t0 := time.Now()
	s.raw(q.String())
	line, err := s.p.readLine()
	for err == nil && line == "" {
		line, err = s.p.readLine()
	}
	d := time.Since(t0)
	s.St.Time += d
	if d > s.St.MaxQuery {
		s.St.MaxQuery = d
	}
	res := Unknown
	switch {
	case err != nil:
		s.St.Errors++
		s.restartReplay()
		s.St.Unknown++
		return Unknown, nil
	case line == "sat":
		res = Sat
	case line == "unsat":
		res = Unsat
	case line == "unknown" || line == "timeout":
		res = Unknown
	default:
		// (error ...) or anything unexpected: inconclusive
		s.St.Errors++
		res = Unknown
		// drain possible further output is not possible reliably: restart
		s.restartReplay()
		s.St.Unknown++
		return Unknown, nil
	}
	var model map[string]uint64
	if res == Sat && len(vars) > 0 {
		model = s.getValues(vars)
		if model == nil {
			res = Unknown
		}
	} else if res == Sat {
		model = map[string]uint64{} // nothing symbolic on this path: the empty assignment is the model (never nil for Sat)
	}
	s.raw("(pop 1)\n")
	switch res {
	case Sat:
		s.St.Sat++
	case Unsat:
		s.St.Unsat++
	default:
		s.St.Unknown++
	}
	s.nq++
	if s.SampleK > 0 && res != Unknown {
		s.sample(extra, res)
	}
	return res, model
}

func (s *Solver) restartReplay() {
	s.restart()
	s.p.send("(reset)\n" + s.p.preamble() + strings.Join(s.transcript, ""))
}

func (s *Solver) getValues(vars []*term.Term) map[string]uint64 {
	model := map[string]uint64{}
	// ask in chunks to keep lines short
	for i := 0; i < len(vars); i += 64 {
		j := i + 64
		if j > len(vars) {
			j = len(vars)
		}
		var q strings.Builder
		q.WriteString("(get-value (")
		for _, v := range vars[i:j] {
			q.WriteString(term.Ref(v))
			q.WriteString(" ")
		}
		q.WriteString("))\n")
		s.raw(q.String())
		txt, err := s.p.readSexp()
		if err != nil || strings.Contains(txt, "(error") {
			s.St.Errors++
			return nil
		}
		parseValues(txt, model)
	}
	return model
}

// parseValues parses ((|name| #x..) (|n2| true) ...) into the map.
func parseValues(txt string, out map[string]uint64) {
	toks := tokenize(txt)
	// pattern: ( ( name value ) ( name value ) ... )
	for i := 0; i+2 < len(toks); i++ {
		if toks[i] == "(" && toks[i+1] != "(" && toks[i+1] != ")" {
			name := strings.Trim(toks[i+1], "|")
			v := toks[i+2]
			switch {
			case v == "true":
				out[name] = 1
			case v == "false":
				out[name] = 0
			case strings.HasPrefix(v, "#x"):
				u, _ := strconv.ParseUint(v[2:], 16, 64)
				out[name] = u
			case strings.HasPrefix(v, "#b"):
				u, _ := strconv.ParseUint(v[2:], 2, 64)
				out[name] = u
			}
		}
	}
}

func tokenize(s string) []string {
	var toks []string
	i := 0
	for i < len(s) {
		ch := s[i]
		switch {
		case ch == '(' || ch == ')':
			toks = append(toks, string(ch))
			i++
		case ch == ' ' || ch == '\n' || ch == '\t' || ch == '\r':
			i++
		case ch == '|':
			j := strings.IndexByte(s[i+1:], '|')
			if j < 0 {
				j = len(s) - i - 2
			}
			toks = append(toks, s[i:i+j+2])
			i += j + 2
		default:
			j := i
			for j < len(s) && !strings.ContainsRune("() \n\t\r", rune(s[j])) {
				j++
			}
			toks = append(toks, s[i:j])
			i = j
		}
	}
	return toks
}

func (s *Solver) crossCheck(extra *term.Term, want Result) {
	var q strings.Builder
	q.WriteString(strings.Join(s.transcript, ""))
	if extra != nil && !extra.IsTrue() {
		fmt.Fprintf(&q, "(assert %s)\n", term.Ref(extra))
	}
	q.WriteString("(check-sat)\n")
	for i, p := range s.cross {
		p.send("(reset)\n" + p.preamble() + q.String())
		line, err := p.readLine()
		for err == nil && line == "" {
			line, err = p.readLine()
		}
		s.St.CrossQueries++
		if err != nil || strings.Contains(line, "interrupted") {
			// the other solver died or was stopped by its time limit: no verdict; restart it
			s.St.CrossNoVerdict++
			p.kill()
			if np, e2 := startProc(p.kind, p.tmoMS); e2 == nil {
				s.cross[i] = np
			}
			continue
		}
		if line == "unknown" || line == "timeout" {
			s.St.CrossNoVerdict++
			continue // no verdict from the other solver; not a disagreement
		}
		if line != want.String() {
			s.St.CrossDisagree++
			s.St.CrossDetail = append(s.St.CrossDetail, fmt.Sprintf("%s says %q, primary says %s", p.kind, line, want))
		}
	}
}

// SampledQuery is a self-contained SMT-LIB2 script with the primary solver's verdict.
type SampledQuery struct {
	Script  string
	Verdict Result
}

func (s *Solver) SetSampling(k int, seed int64) {
	s.SampleK = k
	s.sampleRng = rand.New(rand.NewSource(seed))
}

func (s *Solver) sample(extra *term.Term, res Result) {
	n := s.nq // number of decided queries so far (1-based)
	slot := -1
	if len(s.Samples) < s.SampleK {
		s.Samples = append(s.Samples, SampledQuery{})
		slot = len(s.Samples) - 1
	} else if j := s.sampleRng.Intn(n); j < s.SampleK {
		slot = j
	}
	if slot < 0 {
		return
	}
	var q strings.Builder
	q.WriteString("(set-logic ALL)\n")
	q.WriteString(strings.Join(s.transcript, ""))
	if extra != nil && !extra.IsTrue() {
		fmt.Fprintf(&q, "(assert %s)\n", term.Ref(extra))
	}
	q.WriteString("(check-sat)\n")
	s.Samples[slot] = SampledQuery{Script: q.String(), Verdict: res}
}

// CrossCheck runs a script through one of the other solvers as a one-shot process with a time limit.
// Returns "sat", "unsat" or "" (no verdict).
func CrossCheck(kind Kind, scriptPath string, seconds int) string {
	var cmd *exec.Cmd
	switch kind {
	case Z3:
		cmd = exec.Command("/usr/bin/z3", fmt.Sprintf("-T:%d", seconds), scriptPath)
	case Z3New:
		cmd = exec.Command("z3-new", fmt.Sprintf("-T:%d", seconds), scriptPath)
	default:
		cmd = exec.Command("cvc5", fmt.Sprintf("--tlimit=%d", seconds*1000), scriptPath)
	}
	cmd.SysProcAttr = &syscall.SysProcAttr{Pdeathsig: syscall.SIGKILL}
	out, _ := cmd.CombinedOutput()
	for _, l := range strings.Split(string(out), "\n") {
		l = strings.TrimSpace(l)
		if l == "sat" || l == "unsat" {
			return l
		}
	}
	return ""
}

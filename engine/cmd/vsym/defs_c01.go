package main

import "verif/engine/sym"

// reqJobs enumerates request constructors x framing x payload sizes.
func reqJobs(harness string, coilNs, byteNs []int, extra map[string]int) []sym.Job {
	var js []sym.Job
	add := func(sel, tcp, p int) {
		pm := map[string]int{"sel": sel, "tcp": tcp, "p": p}
		for k, v := range extra {
			pm[k] = v
		}
		js = append(js, sym.Job{Harness: harness, Params: pm})
	}
	for tcp := 0; tcp < 2; tcp++ {
		for sel := 0; sel < 10; sel++ {
			switch sel {
			case 6:
				// ascending: small instances decide fastest, and a violation at a small size stops the sweep early
				for i := 0; i < len(coilNs); i++ {
					add(sel, tcp, coilNs[i])
				}
			case 7, 9:
				for i := len(byteNs) - 1; i >= 0; i-- {
					add(sel, tcp, byteNs[i])
				}
			default:
				add(sel, tcp, 0)
			}
		}
	}
	return js
}

func init() {
	coilQ := ints(0, 1, 2, 7, 8, 9, 15, 16, 17, 63, 64, 65, 1967, 1968, 1969, 2000)
	byteQ := ints(0, 1, 2, 3, 4, 5, 240, 241, 242, 243, 244, 245, 246, 247, 248, 249, 250, 252)
	register(&CheckDef{
		ID: "C01",
		Jobs: func(tier string) []sym.Job {
			// the whole range is cheap enough (about 20 s) to be run on every change
			_ = coilQ
			_ = byteQ
			js := reqJobs("VH_C01_encode", rng(0, 2001), rng(0, 260), nil)
			// two requests encoded one after the other (state carried between encodings would show here)
			for tcp := 0; tcp < 2; tcp++ {
				for sel := 0; sel < 10; sel++ {
					ps := ints(0)
					switch sel {
					case 6:
						ps = ints(1, 9, 17)
					case 7, 9:
						ps = ints(2, 4)
					}
					for _, p := range ps {
						js = append(js, sym.Job{Harness: "VH_C01_encode_twice", Params: map[string]int{"sel": sel, "tcp": tcp, "p": p}})
					}
				}
			}
			// the RTU trailer oracle is the library's CRC16; its premise "CRC16 is the Modbus CRC" (the subject of C03) is
			// discharged in this run as well: table self-check, loop step lemma, base cases
			js = append(js, sym.Job{Harness: "VH_C03_table_selfcheck", Params: map[string]int{}})
			js = append(js, jobsOver("VH_C03_crc_step", "n", ints(1, 2, 3))...)
			js = append(js, jobsOver("VH_C03_crc_whole", "n", ints(0, 1))...)
			return js
		},
		Bounds: map[string]string{
			"quick":    "20 constructors; unit id, transaction id, addresses, quantities symbolic over their whole range; FC15: every coil count 0..2001 with symbolic coil values; FC16/FC23: every data length 0..260 bytes with symbolic contents; plus, for every constructor, two requests (each with its own symbolic arguments, short payloads) encoded one after the other and the first one encoded again",
			"thorough": "same as quick (the bound is the claim)",
		},
		Outside:   []string{"FC15 slices longer than 2001 coils and FC16/23 data longer than 260 bytes (rejected on length alone)", "FC6 data argument of a length other than 2 bytes"},
		MinCovers: []string{"constructed", "constructor-rejects", "step", "whole", "second-constructed"},
		TimeoutMS: 240000, // CRC step lemma: 2-5 s per query on an idle machine, margin for a loaded one
		Stubs:     []string{"math/rand.Intn: arbitrary value in range (the transaction id is overwritten by a symbolic one)", "RTU trailer oracle is the real CRC16, tied to the specification in the same run by the CRC loop step lemma and base cases (as in C03)"},
	})
}

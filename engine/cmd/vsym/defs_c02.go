package main

import "verif/engine/sym"

func init() {
	register(&CheckDef{
		ID: "C02",
		Jobs: func(tier string) []sym.Job {
			th := true // the full payload range is cheap enough to run on every change
			_ = tier
			var js []sym.Job
			add := func(sel, tcp, p, q int) {
				js = append(js, sym.Job{Harness: "VH_C02_decode", Params: map[string]int{"sel": sel, "tcp": tcp, "p": p, "q": q}, AbstractCRC: tcp == 0 && p+q > 16})
			}
			coilP, regP := ints(1, 2, 3, 8, 249, 250, 251, 255), ints(2, 4, 6, 248, 250, 252, 254)
			idP := [][2]int{{1, 0}, {1, 1}, {2, 0}, {3, 2}, {100, 100}, {249, 0}, {200, 49}, {252, 0}, {253, 0}, {255, 0}, {254, 1}}
			if th {
				coilP, regP = rng(1, 255), nil
				// every byte-count value, odd ones included: a register payload with an odd byte count is not what a
				// conforming device sends, but the format allows it and the statement quantifies over all 0..255
				// values: whatever the parser accepts must come back byte for byte
				for p := 1; p <= 255; p++ {
					regP = append(regP, p)
				}
				idP = nil
				for p := 1; p <= 255; p += 2 {
					for _, q := range []int{0, 1, 2, 249 - p} {
						if q >= 0 && p+q <= 256 {
							idP = append(idP, [2]int{p, q})
						}
					}
				}
			}
			for tcp := 0; tcp < 2; tcp++ {
				for sel := 0; sel < 10; sel++ {
					switch sel {
					case 0, 1:
						for _, p := range coilP {
							add(sel, tcp, p, 0)
						}
					case 2, 3, 9:
						for _, p := range regP {
							add(sel, tcp, p, 0)
						}
					case 8:
						for _, pq := range idP {
							add(sel, tcp, pq[0], pq[1])
						}
					default:
						add(sel, tcp, 0, 0)
					}
				}
				js = append(js, sym.Job{Harness: "VH_C02_exception_wellformed", Params: map[string]int{"tcp": tcp}})
				// two frames parsed one after the other (state shared between parses would show here)
				for sel := 0; sel < 10; sel++ {
					p, q := 0, 0
					switch sel {
					case 0, 1:
						p = 3
					case 2, 3, 9:
						p = 4
					case 8:
						p, q = 3, 2
					}
					js = append(js, sym.Job{Harness: "VH_C02_decode_twice", Params: map[string]int{"sel": sel, "tcp": tcp, "p": p, "q": q}})
				}
			}
			lsT, lsR := append(rng(8, 24), rng(255, 264)...), append(rng(2, 20), rng(251, 260)...)
			if th {
				lsT, lsR = rng(8, 264), rng(2, 260)
			}
			for _, l := range lsT {
				js = append(js, sym.Job{Harness: "VH_C02_highbit_never_response", Params: map[string]int{"tcp": 1, "L": l}})
				if l >= 9 {
					js = append(js, sym.Job{Harness: "VH_C02_bytecount_mismatch", Params: map[string]int{"tcp": 1, "L": l}})
				}
			}
			for _, l := range lsR {
				js = append(js, sym.Job{Harness: "VH_C02_highbit_never_response", Params: map[string]int{"tcp": 0, "L": l}})
				if l >= 5 {
					js = append(js, sym.Job{Harness: "VH_C02_bytecount_mismatch", Params: map[string]int{"tcp": 0, "L": l}})
				}
			}
			return js
		},
		Bounds: map[string]string{
			"quick":    "well-formed responses of all 10 functions x {TCP,RTU}: header fields, addresses, counts, payload bytes symbolic; byte-counted payloads over every byte-count value the format allows: coil payloads 1..255 bytes, register payloads 1..255 bytes (odd byte counts included), FC17 id lengths 1..255 (odd) with additional data {0,1,2,rest}; for every function two frames (own symbolic contents, short payloads) parsed one after the other: the second decodes exactly and the first value still re-encodes to its own frame; all 128x256 exception frames (function and code symbolic); high-bit and byte-count-mismatch obligations on every frame of length 8..264 (TCP) / 2..260 (RTU)",
			"thorough": "same as quick (the bound is the claim)",
		},

		Outside:   []string{"frames longer than 264 bytes", "FC17 layout follows the library's documentation (id length | id | status | additional), the specification leaves it device specific"},
		MinCovers: []string{"well-formed", "exception", "highbit", "mismatch", "second-parse"},
	})
}

package main

import "verif/engine/sym"

// quantities per request kind for the client checks: {min, a middle value, max} of what the constructor accepts
func clientQs(kind int, thorough bool) []int {
	switch kind {
	case 0, 1:
		if thorough {
			return ints(1, 8, 9, 16, 17, 1000, 2000)
		}
		return ints(1, 9, 2000)
	case 2, 3:
		if thorough {
			return ints(1, 2, 3, 60, 124, 125)
		}
		return ints(1, 2, 125)
	case 6:
		return ints(1, 9)
	case 7:
		return ints(1, 2)
	case 8:
		if thorough {
			return ints(1, 2, 3, 10, 100)
		}
		return ints(1, 3)
	case 9:
		if thorough {
			return ints(1, 2, 60, 124)
		}
		return ints(1, 124)
	}
	return ints(1)
}

func clientJobs(harness string, thorough bool, chunkSet []int, withExc bool, extra map[string]int) []sym.Job {
	allCuts := harness == "VH_C07_fragmented" || harness == "VH_C19_hooks"
	var js []sym.Job
	for mode := 0; mode < 3; mode++ {
		for kind := 0; kind < 10; kind++ {
			for _, q := range clientQs(kind, thorough) {
				for _, ch := range chunkSet {
					for exc := 0; exc < 2; exc++ {
						if exc == 1 && (!withExc || q != clientQs(kind, thorough)[0]) {
							continue
						}
						pm := map[string]int{"kind": kind, "mode": mode, "q": q, "chunks": ch, "exc": exc}
						for k, v := range extra {
							pm[k] = v
						}
						// long RTU replies: whole-frame CRC abstracted (CRC enforcement itself is C03/C12), models refined before replay
						js = append(js, sym.Job{Harness: harness, Params: pm, AbstractCRC: mode != 0 && q > 8})
					}
				}
				// smallest reply of every kind: additionally every pair of cut positions (three reads). For replies of
				// at most 16 bytes the cut set {0..12, L-3..L-1} is every position, so this is every fragmentation into
				// three reads; with the loop carrying only (total, received[0:total]) it is the loop's inductive step
				// "from any reachable state, any next chunk" for these replies.
				if !thorough && q == clientQs(kind, thorough)[0] && len(chunkSet) > 0 && chunkSet[len(chunkSet)-1] < 3 && extra["fault"] == 0 {
					pm := map[string]int{"kind": kind, "mode": mode, "q": q, "chunks": 3, "exc": 0}
					for k, v := range extra {
						pm[k] = v
					}
					js = append(js, sym.Job{Harness: harness, Params: pm})
				}
				// a mid-sized reply of every kind with a long reply (and in thorough also the largest one): two reads with
				// EVERY position as the boundary (chunks=102), so that a cut in the middle of a long reply is decided as
				// well, not only argued
				qs := clientQs(kind, thorough)
				if allCuts && q == qs[len(qs)-1] && extra["fault"] == 0 {
					var aq []int
					switch kind {
					case 0, 1:
						aq = ints(500)
					case 2, 3, 9:
						aq = ints(30)
					}
					if thorough && len(aq) > 0 {
						aq = append(aq, q)
					}
					for _, q2 := range aq {
						pm := map[string]int{"kind": kind, "mode": mode, "q": q2, "chunks": 102, "exc": 0}
						for k, v := range extra {
							pm[k] = v
						}
						js = append(js, sym.Job{Harness: harness, Params: pm, AbstractCRC: mode != 0})
					}
				}
			}
		}
	}
	return js
}

func init() {
	register(&CheckDef{
		ID: "C07",
		Jobs: func(tier string) []sym.Job {
			th := tier == "thorough"
			var js []sym.Job
			for tcp := 0; tcp < 2; tcp++ {
				for _, kind := range []int{0, 1, 2, 3, 4, 5, 6, 7, 9} {
					p := 0
					if kind == 6 {
						p = 9
					} else if kind == 7 || kind == 9 {
						p = 4
					}
					js = append(js, sym.Job{Harness: "VH_C07_expected_length", Params: map[string]int{"kind": kind, "tcp": tcp, "p": p}})
				}
			}
			chunks := ints(1, 2)
			if th {
				chunks = ints(1, 2, 3)
			}
			js = append(js, clientJobs("VH_C07_fragmented", th, chunks, true, nil)...)
			js = append(js, sym.Job{Harness: "VH_C07_loop_shape", Params: map[string]int{}})
			return js
		},
		Bounds: map[string]string{
			"quick":    "length formulas: 18 request types, every legal quantity symbolic; exchanges: 10 functions x {TCP client, RTU network client, serial client} x reply sizes {min, mid, max} x up to 2 reads with the cut position case-split over {0..12, E-1, E, E+1, L-3, L-2, L-1} and an optional empty timed-out read before each chunk (serial port: reported either as a deadline error or as io.EOF), the first chunk optionally delivered together with a deadline error; for the smallest reply of every function (at most 16 bytes, where that set is every position) also every pair of cut positions (3 reads); for a mid-sized long reply (500 coils / 30 registers, about 70 bytes) of FC1-4 and FC23 two reads with every position 0..L-1 as the boundary; reply payload bytes symbolic; exception replies with symbolic code",
			"thorough": "up to 3 reads (two cut positions); more reply sizes; every cut position also for the largest reply (259 bytes) of FC1-4/FC23",
		},
		Outside:     []string{"more reads than the bound; cut positions outside the case-split set (positions between 13 and E-2 behave like 12: no comparison in the loop distinguishes them)", "transports violating the io.Reader contract", "real timer behaviour: the timer fires only when the harness lets time pass (after the reply has been delivered completely)"},
		Assumptions: []string{"time.After readiness is controlled by the harness (vndAdvanceTime); time.Sleep is a no-op; sync.RWMutex sequential model"},
		TimeoutMS:   120000, // the floating-point Ceil queries need well under a second on an idle machine; margin for a loaded one
		MinCovers:   []string{"constructed", "exchange", "loop-shape"},
	})
}

func init() {
	register(&CheckDef{
		ID: "C08",
		Jobs: func(tier string) []sym.Job {
			th := tier == "thorough"
			var js []sym.Job
			chunks := ints(1)
			if th {
				chunks = ints(1, 2)
			}
			for fault := 1; fault <= 8; fault++ {
				for _, j := range clientJobs("VH_C08_fault", th, chunks, false, map[string]int{"fault": fault}) {
					if fault == 6 && j.Params["mode"] == 2 {
						continue // the serial client sets no write deadline
					}
					js = append(js, j)
				}
			}
			for mode := 0; mode < 3; mode++ {
				for which := 0; which < 3; which++ {
					js = append(js, sym.Job{Harness: "VH_C08_precondition", Params: map[string]int{"mode": mode, "which": which}})
				}
				for _, fault := range []int{1, 2, 3, 4, 5, 7, 8} {
					js = append(js, sym.Job{Harness: "VH_C08_sequence", Params: map[string]int{"mode": mode, "fault": fault}})
				}
			}
			return js
		},
		Bounds: map[string]string{
			"quick":    "10 functions x 3 clients x reply sizes {min,mid,max} x fault in {stall, EOF, I/O error, oversize (max+1 bytes or a full buffer), write error, write-deadline error, caller's context cancelled, caller's context deadline expired} x prefix length case-split over {0..12, E-1, E, E+1, L-3..L-1} delivered in one read; serial flush failure symbolic; preconditions: nil request, unconnected client, context cancelled before the call; sequences: a faulted call followed by a healthy call on the same client (the second must terminate and succeed)",
			"thorough": "prefix delivered in up to 2 reads with optional empty timed-out reads; more reply sizes",
		},
		Outside:     []string{"wall-clock bound: decided relative to the stated timer model (the timer channel becomes ready when the transport lets time pass; a read returns by its deadline)", "faults after more reads than the bound"},
		Assumptions: []string{"time.After readiness is controlled by the harness (vndAdvanceTime); at most 6 further reads after the scripted prefix before a path is cut"},
		MinCovers:   []string{"returned", "precondition", "second-call"},
	})
}

func init() {
	register(&CheckDef{
		ID: "C12",
		Jobs: func(tier string) []sym.Job {
			th := tier == "thorough"
			ls := rng(0, 10)
			chunks := ints(1, 2)
			kinds := ints(2, 4, 8)
			if th {
				ls = append(rng(0, 24), 255, 256)
				kinds = ints(0, 2, 4, 5, 6, 8, 9)
			}
			var js []sym.Job
			for mode := 1; mode <= 2; mode++ {
				for _, kind := range kinds {
					for _, l := range ls {
						for _, ch := range chunks {
							if l == 0 && ch > 1 {
								continue
							}
							// CRC16 is an uninterpreted function here: "whatever is surfaced was checked against CRC16 of the rest" is
							// proved for every possible CRC16 (hence for the real one, whose correctness is C03); counterexamples
							// are re-derived with real CRC values before they are replayed
							js = append(js, sym.Job{Harness: "VH_C12_arbitrary_reply", Params: map[string]int{"mode": mode, "kind": kind, "q": 1, "L": l, "chunks": ch}, AbstractCRC: true})
						}
					}
				}
				// a request that waits for a longer reply (FC3, 4 registers: 13 bytes), so that a shorter string on the wire
				// - an exception frame with bytes behind it, a truncated reply - is looked at while the reply is incomplete
				for _, l := range rng(0, 14) {
					for _, ch := range chunks {
						if l == 0 && ch > 1 {
							continue
						}
						js = append(js, sym.Job{Harness: "VH_C12_arbitrary_reply", Params: map[string]int{"mode": mode, "kind": 2, "q": 4, "L": l, "chunks": ch}, AbstractCRC: true})
					}
				}
			}
			return js
		},
		Bounds: map[string]string{
			"quick":    "RTU network client and serial client; requests FC3, FC5, FC17 of quantity 1 with an arbitrary byte string of every length 0..10 on the wire, and FC3 of 4 registers (13-byte reply) with every length 0..14 (all contents symbolic: every corruption, truncation and extension of every reply of those lengths), delivered in 1 or 2 reads with case-split cut and optional empty timed-out reads; CRC16 treated as an uninterpreted function (the property is proved for every CRC function), counterexamples refined to real CRC values",
			"thorough": "requests FC1,3,5,6,15,17,23; wire lengths 0..24, 255, 256",
		},
		Outside:     []string{"wire strings longer than the bound", "more than 2 reads"},
		Assumptions: []string{"time.After readiness controlled by the harness"},
		MinCovers:   []string{"returned", "success", "device-exception"},
	})
}

func init() {
	register(&CheckDef{
		ID: "C19",
		Jobs: func(tier string) []sym.Job {
			th := tier == "thorough"
			chunks := ints(1, 2)
			if th {
				chunks = ints(1, 2, 3)
			}
			var js []sym.Job
			for _, fault := range []int{0, 2, 3} {
				for _, j := range clientJobs("VH_C19_hooks", th, chunks, fault == 0, map[string]int{"fault": fault, "extra": 0}) {
					if fault != 0 && j.Params["chunks"] > 1 && !th {
						continue
					}
					if th {
						// every script runs twice here (with and without hooks): three reads only for the smallest reply
						// of every function, every cut position only for the mid-sized reply (the largest one is C07's)
						k, q := j.Params["kind"], j.Params["q"]
						qs := clientQs(k, th)
						if j.Params["chunks"] == 3 && q != qs[0] {
							continue
						}
						if j.Params["chunks"] == 102 && q == qs[len(qs)-1] {
							continue
						}
					}
					js = append(js, j)
				}
			}
			// the reply followed by 1 or 4 more bytes on the wire (FC3, FC5, FC17; smallest reply; ordinary cut sets)
			for _, extra := range []int{1, 4} {
				for _, j := range clientJobs("VH_C19_hooks", th, ints(1, 2), false, map[string]int{"fault": 0, "extra": extra}) {
					k := j.Params["kind"]
					if (k != 2 && k != 4 && k != 8) || j.Params["q"] != clientQs(k, th)[0] || j.Params["chunks"] > 2 {
						continue
					}
					js = append(js, j)
				}
			}
			return js
		},
		Bounds: map[string]string{
			"quick":    "10 functions x 3 clients x reply sizes {min,mid,max}; complete reply in up to 2 reads (cut positions case-split, optional empty timed-out reads; for a mid-sized long reply of FC1-4/FC23 every position 0..L-1) incl. exception replies, or a case-split prefix followed by EOF / an I/O error, or the reply followed by 1 or 4 further bytes on the wire (FC3, FC5, FC17); each script is run once with recording hooks and once without hooks",
			"thorough": "more reply sizes; up to 3 reads for the smallest reply of every function",
		},
		Outside:     []string{"more reads than the bound; cut positions outside the case-split set"},
		Assumptions: []string{"time.After readiness controlled by the harness"},
		MinCovers:   []string{"exchange", "parsed"},
	})
	register(&CheckDef{
		ID: "C14",
		Jobs: func(tier string) []sym.Job {
			th := tier == "thorough"
			var js []sym.Job
			kinds := ints(2, 5)
			if th {
				kinds = rng(0, 9)
			}
			// first (so that an early stop keeps them): the harness whose native twin can confirm a predicted deadlock
			for mode := 0; mode < 2; mode++ {
				for opb := 1; opb <= 2; opb++ {
					js = append(js, sym.Job{Harness: "VH_C14_hammer", Params: map[string]int{"mode": mode, "opb": opb}})
				}
			}
			for mode := 0; mode < 3; mode++ {
				for _, kind := range kinds {
					for fault := 0; fault <= 7; fault++ {
						if fault == 6 && mode == 2 {
							continue
						}
						for hp := 0; hp <= 3; hp++ {
							if hp != 0 && fault != 0 && !th {
								continue
							}
							js = append(js, sym.Job{Harness: "VH_C14_lock_discipline", Params: map[string]int{"kind": kind, "mode": mode, "q": 1, "fault": fault, "hookpanic": hp, "chunks": 1}, AbstractCRC: false})
						}
					}
				}
				for _, kind := range []int{0, 2, 4, 8, 9} {
					js = append(js, sym.Job{Harness: "VH_C14_reply_ownership", Params: map[string]int{"kind": kind, "mode": mode, "q": 2}})
				}
				if mode < 2 {
					for op := 0; op < 4; op++ {
						for at := 0; at < 2; at++ {
							js = append(js, sym.Job{Harness: "VH_C14_concurrent_op", Params: map[string]int{"mode": mode, "op": op, "at": at}})
						}
					}
				}
				// happens-before race detection: two goroutines, one operation each (0 Close, 1 Connect, 2 Do), in both orders
				for opa := 0; opa < 3; opa++ {
					for opb := 0; opb < 3; opb++ {
						if mode == 2 && (opa == 1 || opb == 1) {
							continue // the serial client has no Connect
						}
						for hooks := 0; hooks < 2; hooks++ {
							for _, fault := range []int{0, 2, 3, 5} {
								if fault != 0 && opa != 2 && opb != 2 {
									continue
								}
								js = append(js, sym.Job{Harness: "VH_C14_race", Params: map[string]int{"mode": mode, "opa": opa, "opb": opb, "hooks": hooks, "fault": fault}})
							}
						}
					}
				}
			}
			return js
		},
		Bounds: map[string]string{
			"quick":    "requests FC3 and FC6 x 3 clients x all 8 fault kinds (prefix case-split) x {no hooks, hook panicking in BeforeWrite / AfterEachRead / BeforeParse}; Connect, Do, Close each once, sequentially; plus two consecutive exchanges (FC1, FC3, FC5, FC17, FC23) on one client: the first caller's response is unchanged by the second exchange; plus ONE pinned interleaving: a goroutine calling Close / Connect / Do on the network clients at the moment a Do in progress encodes its request",
			"thorough": "all 10 request kinds; panicking hooks combined with every fault",
		},
		Outside:   []string{"goroutine interleavings are NOT a variable of this check: it decides the sequential lock discipline (lock held at every transport operation, released on every path, never taken twice) from which mutual exclusion of whole exchanges follows by the semantics of sync.RWMutex; data races on fields, fairness and the go test -race clause are outside"},
		MinCovers: []string{"do-returned", "two-exchanges", "concurrent-op", "raced", "lock-probe", "hammered"},
	})
}

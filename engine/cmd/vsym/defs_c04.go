package main

import "verif/engine/sym"

// regJobs: mode 1 (address offset case-split, indices concrete) for every window size; additionally mode 0
// (address fully symbolic, payload indexed symbolically) for windows of at most 3 registers.
func regJobs(harness string, ns, lens []int) []sym.Job {
	var js []sym.Job
	for i := len(ns) - 1; i >= 0; i-- {
		n := ns[i]
		for _, mode := range []int{1, 0} {
			if mode == 0 && n > 3 {
				continue
			}
			for sel := 0; sel < 23; sel++ {
				if sel >= 21 {
					for _, l := range lens {
						if mode == 0 && l > 6 {
							continue
						}
						js = append(js, sym.Job{Harness: harness, Params: map[string]int{"n": n, "sel": sel, "len": l, "mode": mode}})
					}
					continue
				}
				js = append(js, sym.Job{Harness: harness, Params: map[string]int{"n": n, "sel": sel, "len": 0, "mode": mode}})
			}
		}
	}
	return js
}

func init() {
	nsQ := ints(1, 2, 3, 4, 5, 124, 125)
	lensQ := ints(1, 2, 3, 4, 5, 8, 9, 250, 255)
	register(&CheckDef{
		ID: "C04",
		Jobs: func(tier string) []sym.Job {
			ns, lens := nsQ, lensQ
			if tier == "thorough" {
				ns, lens = append(rng(1, 8), 32, 33, 64, 100, 124, 125), append(rng(1, 10), 100, 199, 200, 249, 250, 251, 254, 255)
			}
			js := regJobs("VH_C04_accessor", ns, lens)
			for _, n := range ns {
				js = append(js, sym.Job{Harness: "VH_C04_bit_range", Params: map[string]int{"n": n, "len": 0, "mode": 1}})
			}
			return js
		},
		Bounds: map[string]string{
			"quick":    "23 accessors x window size n in {1,2,3,4,5,124,125} registers; start (with start+n<=65536), address, byte order (all 256 values), default order (all 256 values or library default), bit, high/low: symbolic; string lengths case-split {1,2,3,4,5,8,9,250,255}; payload bytes and 16 bytes of spare capacity symbolic",
			"thorough": "23 accessors x window size n in {1..8,32,33,64,100,124,125}; string lengths {1..10,100,199,200,249,250,251,254,255}; rest as quick",
		},
		Outside:   []string{"payloads of more than 125 registers", "Registers values not built by NewRegisters", "string lengths not listed"},
		MinCovers: []string{"inside-window", "outside-window", "bit>15"},
		Stubs:     []string{"fmt.Fprintf(builder, \"%c\", r) appends rune r; strings.Builder is a rune list; errors.New opaque"},
	})
	register(&CheckDef{
		ID: "C13",
		Jobs: func(tier string) []sym.Job {
			ns, lens := ints(1, 2, 4, 125), ints(1, 2, 3, 4, 7, 250)
			if tier == "thorough" {
				ns, lens = append(rng(1, 8), 16, 32, 64, 100, 124, 125), append(rng(1, 8), 16, 100, 250, 255)
			}
			js := regJobs("VH_C13_accessor_pure", ns, lens)
			for _, class := range []int{0, 1, 2, 3, 5, 7, 8, 9} {
				for _, sl := range []int{3, 4} {
					if class != 3 && sl != 3 {
						continue
					}
					js = append(js, sym.Job{Harness: "VH_C13_extract_pure", Params: map[string]int{"class": class, "strlen": sl, "same": 0}})
				}
			}
			// ExtractFields over two fields of the same type that sit on the same registers with different byte orders:
			// each value must equal what the field decodes to on its own from a fresh view (so neither the order of the
			// fields nor the presence of the other one matters) - the end-to-end harness of C05 with same-type pairs
			for _, c := range []int{1, 2, 3, 9} {
				js = append(js, sym.Job{Harness: "VH_C05_extract", Params: map[string]int{"k": 2, "target": 4, "lenient": 0, "trunc": 0, "strlen": 4, "c0": c, "c1": c, "c2": 0, "c3": 0, "tricky": 0, "same": 1}, MaxPath: 400000})
			}
			return js
		},
		Bounds: map[string]string{
			"quick":    "one call (and its repetition) of each of the 23 accessors from an arbitrary payload/Registers state; one Field.ExtractFrom (8 field classes, byte order symbolic) followed by default-order probes and a repetition; ExtractFields over two fields of the same type (Uint32, Float64, String, Uint64) on the same registers, byte orders symbolic and independent: each value equals the field's own decoding from a fresh view; n in {1,2,4,125}; string lengths {1,2,3,4,7,250}; all arguments symbolic",
			"thorough": "n in {1..8,16,32,64,100,124,125}; string lengths {1..8,16,100,250,255}",
		},
		Outside:   []string{"sequences are covered by induction on the unchanged-state step, not enumerated", "ExtractFields over several fields of one response is exercised in C05 (its expected values come from fresh views, so a mutation of the shared view shows there as a wrong value)"},
		MinCovers: []string{"called", "extracted", "value-compared"},
	})
}

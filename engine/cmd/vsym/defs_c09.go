package main

import "verif/engine/sym"

func init() {
	coilQ := ints(1, 2, 7, 8, 9, 16, 17, 1967, 1968)
	byteQ := ints(2, 4, 6, 240, 242, 244, 246)
	register(&CheckDef{
		ID: "C09",
		Jobs: func(tier string) []sym.Job {
			var js []sym.Job
			ls := append(rng(0, 20), rng(250, 266)...)
			if tier == "thorough" {
				js = reqJobs("VH_C09_roundtrip", rng(1, 1968), rng(1, 123*2), nil)
				ls = rng(0, 266)
			} else {
				js = reqJobs("VH_C09_roundtrip", coilQ, byteQ, nil)
			}
			for i := range js {
				// RTU: whole-frame CRC over a long symbolic payload is abstracted (the property does not depend on CRC values;
				// the CRC-specific behaviour is C03's subject). Counterexamples are re-derived with real CRC values.
				js[i].AbstractCRC = js[i].Params["tcp"] == 0 && js[i].Params["p"] > 16
			}
			for li := len(ls) - 1; li >= 0; li-- {
				l := ls[li]
				js = append(js, sym.Job{Harness: "VH_C09_refuse", Params: map[string]int{"which": 0, "tcp": 1, "L": l}})
				js = append(js, sym.Job{Harness: "VH_C09_refuse", Params: map[string]int{"which": 1, "tcp": 0, "L": l}})
				for sel := 0; sel < 10; sel++ {
					for tcp := 0; tcp < 2; tcp++ {
						js = append(js, sym.Job{Harness: "VH_C09_refuse", Params: map[string]int{"which": sel + 2, "tcp": tcp, "L": l}})
					}
				}
			}
			return js
		},
		Bounds: map[string]string{
			"quick":    "round trip: 20 constructors with all legal scalar arguments symbolic, FC15 coil counts {1,2,7,8,9,16,17,1967,1968}, FC16/FC23 data lengths {2,4,6,240..246}; refusal: 22 request parse entry points on every frame of length {0..20, 250..266}",
			"thorough": "round trip: FC15 coil counts 1..1968, FC16/FC23 data lengths 1..246; refusal: frame lengths 0..266",
		},
		Outside:   []string{"frames longer than 266 bytes", "byte-count/quantity consistency of accepted write requests (the statement names quantity, count and coil value limits only)"},
		MinCovers: []string{"legal-request", "accepted", "refused"},
	})
}

package main

import "verif/engine/sym"

func init() {
	register(&CheckDef{
		ID: "C03",
		Jobs: func(tier string) []sym.Job {
			th := tier == "thorough"
			js := []sym.Job{{Harness: "VH_C03_table_selfcheck", Params: map[string]int{}}}
			stepN := ints(1, 2, 3)
			wholeN := ints(0, 1)
			ps := ints(0, 1, 2, 3, 250, 251, 252)
			ls := rng(0, 14)
			if th {
				stepN = ints(1, 2, 3, 7, 64, 256)
				wholeN = ints(0, 1, 2)
				ps = rng(0, 253)
				ls = append(rng(0, 40), 255, 256, 257, 258)
			}
			js = append(js, jobsOver("VH_C03_crc_step", "n", stepN)...)
			js = append(js, jobsOver("VH_C03_crc_whole", "n", wholeN)...)
			hasPayload := map[int]bool{6: true, 7: true, 9: true, 10: true, 11: true, 12: true, 13: true, 18: true, 19: true}
			for sel := 0; sel <= 20; sel++ {
				if !hasPayload[sel] {
					js = append(js, sym.Job{Harness: "VH_C03_frame_trailer", Params: map[string]int{"sel": sel, "p": 0, "q": 0}})
					continue
				}
				for _, p := range ps {
					if sel == 18 {
						for _, q := range ints(0, 1, 2) {
							if p+q > 251 {
								continue
							}
							js = append(js, sym.Job{Harness: "VH_C03_frame_trailer", Params: map[string]int{"sel": sel, "p": p, "q": q}})
						}
						continue
					}
					js = append(js, sym.Job{Harness: "VH_C03_frame_trailer", Params: map[string]int{"sel": sel, "p": p, "q": 0}})
				}
			}
			// responses whose byte-count field announces more bytes than the payload holds (handler-built values)
			for _, sel := range ints(10, 11, 12, 13, 19) {
				for _, p := range ints(1, 2, 3, 250) {
					for _, q := range ints(1, 2) {
						js = append(js, sym.Job{Harness: "VH_C03_frame_trailer", Params: map[string]int{"sel": sel, "p": p, "q": q}})
					}
				}
			}
			for which := 0; which < 2; which++ {
				for _, l := range ls {
					js = append(js, sym.Job{Harness: "VH_C03_withcrc", Params: map[string]int{"which": which, "L": l}})
				}
			}
			// frames re-emitted from values that came off the wire (CRC abstraction with refinement)
			rl := rng(4, 30)
			if th {
				rl = append(rng(4, 64), 255, 256, 257, 258)
			}
			for which := 0; which < 2; which++ {
				for _, l := range rl {
					js = append(js, sym.Job{Harness: "VH_C03_reemit", Params: map[string]int{"which": which, "L": l}, AbstractCRC: true})
				}
			}
			return js
		},
		Bounds: map[string]string{
			"quick":    "CRC step lemma: arbitrary 16-bit state x arbitrary next byte at every index of buffers of 1,2,3 bytes (no bound on message length for the lemma itself); whole-function comparison for lengths 0..1 (impl-vs-table equivalence over 2 or more symbolic bytes does not finish within the quick time limit); 21 RTU frame encoders with payload lengths {0,1,2,3,250,251,252}, the byte-counted response encoders also with a byte-count field 1..2 larger than the payload; CRC-verifying parsers on every frame of length 0..14 with every trailer value; every accepted frame of length 4..30 re-encoded from the parsed value ends with the CRC of its preceding bytes (CRC abstraction + refinement)",
			"thorough": "step lemma on buffers of 1,2,3,7,64,256 bytes; whole-function lengths 0..2; encoder payload lengths 0..253; CRC-verifying parsers on lengths 0..40 and 255..258; re-encoding of accepted frames of lengths 4..64 and 255..258",
		},
		Outside:     []string{"whole-function equivalence beyond the listed lengths rests on the induction step (k=1 induction over the byte loop, structural: the loop carries exactly (crc, index))", "CRC-verifying parsers on frame lengths not listed"},
		Assumptions: []string{"induction principle over the byte loop of CRC16 (meta-argument); the engine checks that the loop header carries exactly two values"},
		TimeoutMS:   240000, // the step lemma needs 2-5 s per query on an idle machine; keep a wide margin under load
		MinCovers:   []string{"selfcheck", "step", "exit", "whole", "frame", "bad-crc", "good-crc", "too-short", "re-emitted"},
	})
}

package main

import "verif/engine/sym"

func init() {
	register(&CheckDef{
		ID: "C16",
		Jobs: func(tier string) []sym.Job {
			ls := append(rng(8, 20), rng(255, 262)...)
			if tier == "thorough" {
				ls = rng(8, 262)
			}
			var js []sym.Job
			for i := len(ls) - 1; i >= 0; i-- {
				for h := 0; h <= 2; h++ {
					js = append(js, sym.Job{Harness: "VH_C16_reply", Params: map[string]int{"L": ls[i], "handler": h}})
				}
			}
			// a malformed frame (not Modbus TCP: truncated to the bare function code, or a foreign protocol id) that arrives
			// behind valid requests, in the same read or the next: its exception must be addressed to its own header, not to
			// whatever else is buffered (the reference is the reply the same frame gets when it arrives alone)
			for _, ks := range [][]int{{8}, {0, 8}, {2, 8}, {7, 8}, {0, 1, 8}} {
				for r := 1; r <= 2; r++ {
					pm := map[string]int{"frames": len(ks), "reads": r, "k0": 0, "k1": 0, "k2": 0}
					for i, k := range ks {
						pm[[]string{"k0", "k1", "k2"}[i]] = k
					}
					js = append(js, sym.Job{Harness: "VH_C15_segmentation", Params: pm})
				}
			}
			return js
		},
		Bounds: map[string]string{
			"quick":    "one complete request frame of every length in {8..20, 255..262}: all bytes symbolic under a valid MBAP header (protocol id 0, consistent length field) and function code 1..127 - valid requests, unsupported functions, out-of-range quantities, truncated bodies, inconsistent byte counts; handler outcome in {conforming response, typed error packet.NewErrorParseTCP(code,..) with symbolic code, generic error}; plus streams in which a malformed frame (truncated to the bare function code, or a foreign protocol id) follows 0..2 valid requests (FC3, FC6, FC16, FC23) in the same read or the next one",
			"thorough": "frame lengths 8..262",
		},
		Outside:   []string{"frames longer than 262 bytes", "a panicking handler and isolation between connections are judged in C17's serve harness (no panic escapes the connection body)"},
		MinCovers: []string{"received", "handled", "unsupported-function", "out-of-range", "malformed"},
		Stubs:     []string{"bytes.Buffer runs the real std code"},
	})
}

func init() {
	register(&CheckDef{
		ID: "C15",
		Jobs: func(tier string) []sym.Job {
			var js []sym.Job
			add := func(frames, reads int, ks ...int) {
				pm := map[string]int{"frames": frames, "reads": reads, "k0": 0, "k1": 0, "k2": 0}
				for i, k := range ks {
					pm[[]string{"k0", "k1", "k2"}[i]] = k
				}
				js = append(js, sym.Job{Harness: "VH_C15_segmentation", Params: pm})
			}
			th := true // the thorough bound costs under two minutes: run it on every change
			_ = tier
			maxReads := 3
			if th {
				maxReads = 4
			}
			for k0 := 0; k0 <= 4; k0++ {
				for r := 1; r <= maxReads; r++ {
					add(1, r, k0)
				}
				for k1 := 0; k1 <= 4; k1++ {
					for r := 1; r <= 3; r++ {
						add(2, r, k0, k1)
					}
					if th {
						for k2 := 0; k2 <= 4; k2++ {
							add(3, 2, k0, k1, k2)
							add(3, 3, k0, k1, k2)
						}
					}
				}
			}
			// FC23 (the longest fixed header) alone and next to another request
			for _, ks := range [][]int{{7}, {0, 7}, {7, 0}} {
				for r := 1; r <= 3; r++ {
					add(len(ks), r, ks...)
				}
			}
			// long frames: the largest request followed / preceded by short ones (more than 260 bytes buffered at once)
			for _, ks := range [][]int{{5, 0}, {0, 5}, {6, 0, 0}, {5, 5}} {
				for r := 1; r <= 2; r++ {
					add(len(ks), r, ks...)
				}
			}
			return js
		},
		Bounds: map[string]string{
			"quick":    "streams of 1..3 request frames (kinds: FC3, FC6, FC16 with payload, FC23, unsupported function, out-of-range quantity; transaction id, unit, addresses, values symbolic); single frames cut into up to 4 reads, two frames into up to 3 reads, three frames into 2..3 reads, with EVERY cut position (case-split over all byte offsets); lock-step and pipelined (next request in the same read) arrivals; plus streams with the largest request (FC16 with 123 registers, 260 bytes; 110 registers, 233 bytes) next to short ones, in 1..2 reads with every cut position, so that more than one maximal frame is buffered at once",
			"thorough": "same as quick (the bound is the claim)",
		},
		Outside:   []string{"more frames / reads than the bound", "the connection loop around the assembler (reads are handed to ReceiveRead one by one, as connection.handle does)"},
		MinCovers: []string{"read", "stream-done"},
		Stubs:     []string{"bytes.Buffer runs the real std code"},
	})
}

func init() {
	register(&CheckDef{
		ID: "C17",
		Jobs: func(tier string) []sym.Job {
			var js []sym.Job
			for cfg := 0; cfg < 16; cfg++ {
				for conns := 0; conns <= 2; conns++ {
					for _, h := range []int{0, 3, 4} {
						if h == 3 && conns == 0 {
							continue
						}
						js = append(js, sym.Job{Harness: "VH_C17_serve", Params: map[string]int{"callbacks": cfg, "conns": conns, "handler": h}})
					}
				}
			}
			for n := 0; n <= 3; n++ {
				js = append(js, sym.Job{Harness: "VH_C17_shutdown", Params: map[string]int{"conns": n}})
			}
			// happens-before race detection: serve loop, connection goroutines and a Shutdown started from another
			// goroutine during the at-th Accept call
			for cfg := 0; cfg < 16; cfg++ {
				for conns := 1; conns <= 2; conns++ {
					for at := -2; at <= conns; at++ {
						if at == -1 && cfg&1 == 0 {
							continue // -1: Shutdown is started from the OnServeFunc callback
						}
						js = append(js, sym.Job{Harness: "VH_C17_race", Params: map[string]int{"callbacks": cfg, "conns": conns, "at": at}})
					}
				}
			}
			return js
		},
		Bounds: map[string]string{
			"quick":    "all 16 set/unset combinations of the four callbacks x 0..2 incoming connections (each sends one request, accept callback's verdict symbolic per connection) x handler {conforming, panicking, conforming but slower than the write timeout} x shutdown flag set or not before Accept fails; Shutdown on 0..3 tracked connections with symbolic busy flags; happens-before race detection over the sequentialised run of the serve loop, 1..2 connection goroutines and a Shutdown goroutine started during any Accept call from the OnServeFunc callback (the usual server-is-up signal) or before the serve call, all 16 callback configurations",
			"thorough": "same (the bound is the claim)",
		},
		Outside:   []string{"goroutine interleavings: each connection goroutine is run to completion at its spawn point (one schedule), so the outcomes of concurrent connects/disconnects/shutdown under other schedules, the isBeingHandled hand-over under concurrency, races that need a path only reachable under a particular interleaving, 'the port no longer accepts connections' and 'cancelling the context makes serve return in bounded time' are NOT decided by this check"},
		MinCovers: []string{"serve-returned", "rejected", "handler-panicked", "close-callback-set", "shutdown-returned", "busy", "raced"},
	})
}

package main

import "verif/engine/sym"

func ints(a ...int) []int { return a }

func rng(lo, hi int) []int {
	var r []int
	for i := lo; i <= hi; i++ {
		r = append(r, i)
	}
	return r
}

func jobsOver(h string, key string, vals []int) []sym.Job {
	var js []sym.Job
	for _, v := range vals {
		js = append(js, sym.Job{Harness: h, Params: map[string]int{key: v}})
	}
	return js
}

func init() {
	register(&CheckDef{
		ID: "C11",
		Jobs: func(tier string) []sym.Job {
			ns := ints(1, 2, 3, 250)
			if tier == "thorough" {
				ns = rng(1, 250)
			}
			js := jobsOver("VH_C11_isBitSet_layout", "n", ns)
			// write-side packing for every coil count (cheap)
			js = append(js, jobsOver("VH_C11_packing", "n", rng(1, 1968))...)
			return js
		},
		Bounds:    map[string]string{"quick": "lookup: payload length n in {1,2,3,250}; start, address: all 2^32 pairs; payload bytes symbolic. Packing (CoilsToBytes): every coil count 1..1968 with symbolic coil values", "thorough": "payload length n in 1..250"},
		Outside:   []string{"payloads longer than 250 bytes"},
		MinCovers: []string{"in-window", "outside-window", "packed"},
	})
}

package main

import (
	"encoding/json"
	"flag"
	"fmt"
	"math/rand"
	"os"
	"path/filepath"
	"runtime"
	"sort"
	"strconv"
	"strings"
	"sync"
	"time"

	"verif/engine/smt"
	"verif/engine/sym"
)

// CheckDef describes how one property is decided.
type CheckDef struct {
	ID          string
	Jobs        func(tier string) []sym.Job
	Bounds      map[string]string // tier -> text
	Outside     []string
	Stubs       []string
	Assumptions []string
	MinCovers   []string // cover labels that must be reached at least once (vacuity guard)
	TimeoutMS   int      // per-query solver time limit for the quick tier (0 = default 90 s)
}

var registry = map[string]*CheckDef{}

func register(c *CheckDef) { registry[c.ID] = c }

type Finding struct {
	ID       string                 `json:"id"`
	Property string                 `json:"property"`
	Status   string                 `json:"status"` // open | fixed
	What     string                 `json:"what"`
	Site     string                 `json:"site,omitempty"`
	Witness  map[string]interface{} `json:"witness,omitempty"`
	Commit   string                 `json:"commit,omitempty"`
	Record   string                 `json:"record,omitempty"`
	Pinned   string                 `json:"pinned_by,omitempty"`
}

type FindingsFile struct {
	Findings []Finding `json:"findings"`
}

func verifDir() string {
	if d := os.Getenv("VERIF_DIR"); d != "" {
		return d
	}
	return "/verif"
}

func loadFindings() FindingsFile {
	var ff FindingsFile
	b, err := os.ReadFile(filepath.Join(verifDir(), "known_findings.json"))
	if err == nil {
		json.Unmarshal(b, &ff)
	}
	return ff
}

func checkMain(args []string) int {
	if len(args) == 0 {
		fmt.Println("usage: vsym <ID> [--tier quick|thorough] | vsym --replay <tape.json> | vsym list")
		return 2
	}
	if args[0] == "--replay" || args[0] == "replay" {
		return replayMain(args[1:])
	}
	if args[0] == "list" {
		ids := make([]string, 0, len(registry))
		for id := range registry {
			ids = append(ids, id)
		}
		sort.Strings(ids)
		for _, id := range ids {
			fmt.Println(id)
		}
		return 0
	}
	id := args[0]
	fs := flag.NewFlagSet("check", flag.ExitOnError)
	tier := fs.String("tier", "", "quick|thorough")
	workers := fs.Int("j", 0, "workers")
	only := fs.String("only", "", "substring filter on harness names (debugging; evidence is marked partial)")
	fs.Parse(args[1:])
	if *tier == "" {
		*tier = os.Getenv("VERIF_TIER")
	}
	if *tier == "" {
		*tier = "quick"
	}
	def := registry[id]
	if def == nil {
		fmt.Printf("unknown check %s\n", id)
		return 2
	}
	seed := int64(1)
	if s := os.Getenv("VERIF_SEED"); s != "" {
		if v, err := strconv.ParseInt(s, 10, 64); err == nil {
			seed = v
		}
	}
	repo := os.Getenv("VERIF_REPO")
	if repo == "" {
		repo = "/repo"
	}
	return runCheck(def, *tier, seed, repo, *workers, *only)
}

type checkRun struct {
	def     *CheckDef
	tier    string
	seed    int64
	results []*sym.JobResult
}

func runCheck(def *CheckDef, tier string, seed int64, repo string, workers int, only string) int {
	t0 := time.Now()
	vd := verifDir()
	eng, err := sym.Load(repo, filepath.Join(vd, "harness"))
	if err != nil {
		fmt.Printf("INCONCLUSIVE property=%s load failed: %v\n", def.ID, err)
		writeEvidence(def, tier, seed, nil, nil, time.Since(t0), []string{"load failed: " + err.Error()}, 0, 0, nil, nil)
		return 2
	}
	loadS := time.Since(t0).Seconds()
	ff := loadFindings()
	open := map[string]bool{}
	finding := map[string]Finding{}
	for _, f := range ff.Findings {
		if f.Property == def.ID {
			finding[f.ID] = f
			if f.Status == "open" {
				open[f.ID] = true
			}
		}
	}
	jobs := def.Jobs(tier)
	if only != "" {
		var fj []sym.Job
		for _, j := range jobs {
			if strings.Contains(j.Key(), only) {
				fj = append(fj, j)
			}
		}
		jobs = fj
	}
	if workers <= 0 {
		workers = runtime.NumCPU()
		if workers > 16 {
			workers = 16
		}
	}
	if workers > len(jobs) {
		workers = len(jobs)
	}
	timeout := 90000 // (queries take well under a second on an idle machine; the margin is for a loaded one)
	cross := 0
	checkBudget := 45 * time.Minute // whole-check wall-clock budget after which no further job is started
	if tier == "thorough" {
		checkBudget = 5 * time.Hour
	}
	if v := os.Getenv("VERIF_CHECK_BUDGET_S"); v != "" {
		if n, err := strconv.Atoi(v); err == nil {
			checkBudget = time.Duration(n) * time.Second
		}
	}
	jobBudget := 900 * time.Second
	if tier == "thorough" {
		jobBudget = 2 * time.Hour
	}
	if v := os.Getenv("VERIF_JOB_BUDGET_S"); v != "" {
		if n, err := strconv.Atoi(v); err == nil {
			jobBudget = time.Duration(n) * time.Second
		}
	}
	crossTmo := 4 // seconds per cross-checked query and solver
	if tier == "thorough" {
		timeout = 300000
		cross = 12 // sampled queries per worker
		crossTmo = 20
	} else {
		cross = 3
	}
	if v := os.Getenv("VERIF_CROSS"); v != "" {
		cross, _ = strconv.Atoi(v)
	}
	if def.TimeoutMS > 0 && tier != "thorough" {
		timeout = def.TimeoutMS
	}
	results := make([]*sym.JobResult, len(jobs))
	var wg sync.WaitGroup
	next := make(chan int, len(jobs))
	// longest first is unknowable; keep declaration order
	for i := range jobs {
		next <- i
	}
	close(next)
	var mu sync.Mutex
	done := 0
	violJobs, skipped := 0, 0
	var sampled []smt.SampledQuery
	for w := 0; w < workers; w++ {
		wg.Add(1)
		wid := w
		go func() {
			defer wg.Done()
			sol, err := smt.New(timeout)
			if err != nil {
				panic(err)
			}
			defer sol.Close()
			if cross > 0 {
				sol.SetSampling(cross, seed+int64(wid)*7919)
			}
			defer func() {
				mu.Lock()
				sampled = append(sampled, sol.Samples...)
				mu.Unlock()
			}()
			for i := range next {
				// once several jobs have produced counterexamples the verdict of the check is settled: the remaining
				// jobs are skipped (they are listed as not run; this only happens on a tree that violates the property)
				mu.Lock()
				stop := violJobs >= 6
				late := time.Since(t0) > checkBudget
				mu.Unlock()
				if late && !stop {
					results[i] = &sym.JobResult{Job: jobs[i], PathsByEnd: map[string]int{"not-run-check-budget": 1}, Covers: map[string]int{}, Asserts: map[string]int{}, Funcs: map[string]int{},
						Inconclusive: []string{fmt.Sprintf("not run: the check's wall-clock budget of %v was used up", checkBudget)}}
					continue
				}
				if stop {
					results[i] = &sym.JobResult{Job: jobs[i], PathsByEnd: map[string]int{"skipped-after-violations": 1}, Covers: map[string]int{}, Asserts: map[string]int{}, Funcs: map[string]int{}}
					skipped++
					continue
				}
				results[i] = eng.RunJob(jobs[i], sol, sym.RunOpts{OpenKnown: open, Seed: seed, SampleEvery: 3, JobBudget: jobBudget})
				if len(results[i].Violations) > 0 {
					mu.Lock()
					violJobs++
					mu.Unlock()
				}
				mu.Lock()
				done++
				if os.Getenv("VERIF_VERBOSE") != "" {
					r := results[i]
					fmt.Fprintf(os.Stderr, "[%d/%d] %s paths=%d viol=%d known=%d inconcl=%d %.1fs\n", done, len(jobs), jobs[i].Key(), r.Paths, len(r.Violations), len(r.Known), len(r.Inconclusive), r.Wall.Seconds())
				}
				mu.Unlock()
			}
		}()
	}
	wg.Wait()
	exploreS := time.Since(t0).Seconds() - loadS
	// ---- out-of-band solver cross-check of the sampled queries (one-shot z3 4.8.12 and cvc5 processes)
	crossRes := crossCheckSamples(sampled, filepath.Join(vd, ".work", fmt.Sprintf("%s-x-%d", def.ID, os.Getpid())), crossTmo)

	// ---- gather
	var inconcl []string
	var viols []sym.ViolationRec
	knownBy := map[string]sym.KnownRec{}
	var samples []sym.Tape
	covers := map[string]int{}
	for _, r := range results {
		for _, s := range r.Inconclusive {
			inconcl = append(inconcl, r.Job.Key()+": "+s)
		}
		viols = append(viols, r.Violations...)
		for _, k := range r.Known {
			if _, ok := knownBy[k.ID]; !ok {
				knownBy[k.ID] = k
			}
		}
		samples = append(samples, r.Samples...)
		for k, v := range r.Covers {
			covers[k] += v
		}
	}
	if skipped > 0 {
		fmt.Printf("  %d jobs skipped after %d jobs had produced counterexamples\n", skipped, violJobs)
	}
	for _, c := range def.MinCovers {
		if covers[c] == 0 && only == "" && skipped == 0 {
			inconcl = append(inconcl, "vacuity: cover label never reached: "+c)
		}
	}
	// ---- native replay: violations (a few per label), known-finding witnesses, validation samples
	rng := rand.New(rand.NewSource(seed))
	rng.Shuffle(len(samples), func(i, j int) { samples[i], samples[j] = samples[j], samples[i] })
	maxSamples := 12
	if tier == "thorough" {
		maxSamples = 40
	}
	if len(samples) > maxSamples {
		samples = samples[:maxSamples]
	}
	perLabel := map[string]int{}
	var vsel []sym.ViolationRec
	maxRepl := 24
	if v := os.Getenv("VERIF_MAXREPLAY"); v != "" {
		maxRepl, _ = strconv.Atoi(v)
	}
	// one counterexample per violated obligation and harness (at most three harnesses per obligation): a prediction
	// that one harness cannot reproduce natively (a deadlock that needs a second goroutine, say) may be reproducible
	// through another
	selHarness := map[string]bool{}
	selCount := map[string]int{}
	for _, v := range viols {
		k := v.Kind + "|" + v.Label
		perLabel[k]++
		kh := k + "|" + v.Tape.Harness
		if !selHarness[kh] && selCount[k] < 3 && len(vsel) < maxRepl {
			selHarness[kh] = true
			selCount[k]++
			vsel = append(vsel, v)
		}
	}
	if len(perLabel) > 0 {
		ks := make([]string, 0, len(perLabel))
		for k := range perLabel {
			ks = append(ks, k)
		}
		sort.Strings(ks)
		fmt.Printf("  %d distinct violated obligations (%d counterexamples):\n", len(ks), len(viols))
		for _, k := range ks {
			fmt.Printf("    %4d x %s\n", perLabel[k], k)
		}
	}
	type item struct {
		tape sym.Tape
		path string
		kind string
		out  sym.ReplayOutcome
		ok   bool
	}
	var items []*item
	replDir := filepath.Join(vd, "replays", def.ID)
	os.RemoveAll(replDir)
	for i, v := range vsel {
		items = append(items, &item{tape: v.Tape, path: filepath.Join(replDir, fmt.Sprintf("%s-%d.json", v.Tape.Harness, i)), kind: "violation"})
	}
	kids := make([]string, 0, len(knownBy))
	for id := range knownBy {
		kids = append(kids, id)
	}
	sort.Strings(kids)
	for _, id := range kids {
		items = append(items, &item{tape: knownBy[id].Tape, path: filepath.Join(replDir, "known-"+id+".json"), kind: "known"})
	}
	work := filepath.Join(vd, ".work", fmt.Sprintf("%s-%d", def.ID, os.Getpid()))
	defer os.RemoveAll(work)
	for i, s := range samples {
		items = append(items, &item{tape: s, path: filepath.Join(work, fmt.Sprintf("sample-%d.json", i)), kind: "validation"})
	}
	validated, mismatches := 0, 0
	if len(items) > 0 {
		byPkg := map[string][]*item{}
		rel := map[string]string{}
		for _, it := range items {
			sym.WriteTape(it.path, it.tape)
			pn, pr := eng.PkgOfHarness(it.tape.Harness)
			byPkg[pn] = append(byPkg[pn], it)
			rel[pn] = pr
		}
		for pn, its := range byPkg {
			paths := make([]string, len(its))
			for i, it := range its {
				paths[i] = it.path
			}
			outs, raw, err := eng.NativeReplay(pn, rel[pn], paths, work)
			if err != nil && os.Getenv("VERIF_VERBOSE") != "" {
				fmt.Fprintln(os.Stderr, "native replay:", err, "\n", raw)
			}
			for i, it := range its {
				it.out = outs[i]
				it.ok = sym.Confirms(it.tape, outs[i])
				if strings.HasPrefix(outs[i].Outcome, "error:no-output") && err != nil {
					inconcl = append(inconcl, "native replay failed to run: "+firstLines(raw, 6))
				}
			}
		}
	}
	exit := 0
	var violLines, knownLines []string
	reproduced := map[string]bool{}
	confirmedLabel := map[string]bool{}
	for _, it := range items {
		if it.kind == "violation" && it.ok {
			confirmedLabel[it.tape.VKind+"|"+it.tape.Label] = true
		}
	}
	for _, it := range items {
		switch it.kind {
		case "validation":
			validated++
			if !it.ok {
				mismatches++
				keep := filepath.Join(replDir, "mismatch-"+filepath.Base(it.path))
				sym.WriteTape(keep, it.tape)
				inconcl = append(inconcl, fmt.Sprintf("engine-mismatch: validation sample %s predicted %v native %s %v", keep, it.tape.Expect, it.out.Outcome, it.out.Log))
			}
		case "violation":
			if it.ok {
				violLines = append(violLines, fmt.Sprintf("VIOLATION property=%s replay=%s", def.ID, it.path))
				fmt.Printf("  violated: %s [%s] at %s (harness %s %v) native=%s\n", it.tape.Label, it.tape.VKind, it.tape.Where, it.tape.Harness, it.tape.Params, it.out.Outcome)
			} else if confirmedLabel[it.tape.VKind+"|"+it.tape.Label] {
				fmt.Printf("  note: the same obligation did not reproduce through harness %s (reproduced through another)\n", it.tape.Harness)
			} else {
				inconcl = append(inconcl, fmt.Sprintf("engine-mismatch: counterexample %s (%s) did not reproduce natively: %s failed=%v", it.path, it.tape.Label, it.out.Outcome, it.out.Failed))
			}
		case "known":
			if it.ok {
				reproduced[it.tape.Label] = true
			} else {
				inconcl = append(inconcl, fmt.Sprintf("engine-mismatch: known-finding witness %s did not reproduce natively: %s", it.tape.Label, it.out.Outcome))
			}
		}
	}
	fids := make([]string, 0, len(finding))
	for id := range finding {
		fids = append(fids, id)
	}
	sort.Strings(fids)
	for _, id := range fids {
		f := finding[id]
		if f.Status != "open" {
			continue
		}
		if reproduced[id] {
			knownLines = append(knownLines, fmt.Sprintf("KNOWN-FINDING: property=%s %s %s", def.ID, id, f.What))
		} else if only == "" {
			fmt.Printf("NOTE: listed finding %s was not reproduced on this tree (%s)\n", id, f.What)
		}
	}
	for _, l := range knownLines {
		fmt.Println(l)
	}
	for _, l := range violLines {
		fmt.Println(l)
	}
	if len(violLines) > 0 {
		exit = 1
	} else if len(inconcl) > 0 {
		exit = 2
	}
	sort.Strings(inconcl)
	inconcl = dedup(inconcl)
	for i, s := range inconcl {
		if i >= 12 {
			fmt.Printf("INCONCLUSIVE ... %d more\n", len(inconcl)-i)
			break
		}
		fmt.Printf("INCONCLUSIVE property=%s %s\n", def.ID, firstLines(s, 3))
	}
	wall := time.Since(t0)
	if crossRes.Disagree > 0 {
		inconcl = append(inconcl, fmt.Sprintf("solver cross-check disagreement: %v", crossRes.Detail))
		if exit == 0 {
			exit = 2
		}
	}
	lastCross = crossRes
	ev := writeEvidence(def, tier, seed, results, items2samples(vsel, knownBy, kids), wall, inconcl, validated, mismatches, knownLines, violLines)
	fmt.Printf("%s tier=%s exit=%d jobs=%d paths=%d queries(sat/unsat/unknown)=%d/%d/%d solver=%.1fs load=%.1fs explore=%.1fs wall=%.1fs validated=%d\n",
		def.ID, tier, exit, len(jobs), ev.paths, ev.sat, ev.unsat, ev.unknown, ev.solverS, loadS, exploreS, wall.Seconds(), validated)
	return exit
}

func dedup(s []string) []string {
	var out []string
	for i, x := range s {
		if i == 0 || x != s[i-1] {
			out = append(out, x)
		}
	}
	return out
}

func firstLines(s string, n int) string {
	ls := strings.Split(s, "\n")
	if len(ls) > n {
		ls = ls[:n]
	}
	return strings.Join(ls, " | ")
}

func items2samples(v []sym.ViolationRec, k map[string]sym.KnownRec, kids []string) []interface{} {
	var out []interface{}
	for _, x := range v {
		out = append(out, map[string]interface{}{"kind": "counterexample", "harness": x.Tape.Harness, "params": x.Tape.Params, "label": x.Label, "where": x.Where, "values": trimVals(x.Tape)})
	}
	for _, id := range kids {
		x := k[id]
		out = append(out, map[string]interface{}{"kind": "known-finding witness", "id": id, "harness": x.Tape.Harness, "params": x.Tape.Params, "values": trimVals(x.Tape)})
	}
	return out
}

func trimVals(t sym.Tape) map[string]uint64 {
	m := map[string]uint64{}
	for i, n := range t.Names {
		if i < len(t.Values) && (len(t.Names) <= 24 || t.Values[i] != 0) && len(m) < 24 {
			m[fmt.Sprintf("%d:%s", i, n)] = t.Values[i]
		}
	}
	return m
}

type crossResult struct {
	Queries, Runs, Agree, Disagree, NoVerdict int
	Detail                                    []string
}

var lastCross crossResult

func crossCheckSamples(qs []smt.SampledQuery, dir string, seconds int) crossResult {
	var cr crossResult
	if len(qs) == 0 {
		return cr
	}
	os.MkdirAll(dir, 0o755)
	defer os.RemoveAll(dir)
	type task struct {
		i    int
		kind smt.Kind
	}
	var kinds []smt.Kind
	for _, k := range []smt.Kind{smt.Z3, smt.Z3New, smt.CVC5} {
		if k != smt.Primary {
			kinds = append(kinds, k)
		}
	}
	tasks := make(chan task, len(qs)*len(kinds))
	for i, q := range qs {
		os.WriteFile(filepath.Join(dir, fmt.Sprintf("q%d.smt2", i)), []byte(q.Script), 0o644)
		for _, k := range kinds {
			tasks <- task{i, k}
		}
	}
	close(tasks)
	cr.Queries = len(qs)
	var mu sync.Mutex
	var wg sync.WaitGroup
	for w := 0; w < 16; w++ {
		wg.Add(1)
		go func() {
			defer wg.Done()
			for t := range tasks {
				v := smt.CrossCheck(t.kind, filepath.Join(dir, fmt.Sprintf("q%d.smt2", t.i)), seconds)
				mu.Lock()
				cr.Runs++
				switch {
				case v == "":
					cr.NoVerdict++
				case v == qs[t.i].Verdict.String():
					cr.Agree++
				default:
					cr.Disagree++
					keep := filepath.Join(verifDir(), "replays", fmt.Sprintf("solver-disagreement-%d.smt2", t.i))
					os.MkdirAll(filepath.Dir(keep), 0o755)
					os.WriteFile(keep, []byte(qs[t.i].Script), 0o644)
					cr.Detail = append(cr.Detail, fmt.Sprintf("%s says %s, primary %s says %s (%s)", t.kind, v, smt.Primary, qs[t.i].Verdict, keep))
				}
				mu.Unlock()
			}
		}()
	}
	wg.Wait()
	return cr
}

type evSummary struct {
	paths               int
	sat, unsat, unknown int
	solverS             float64
}

func writeEvidence(def *CheckDef, tier string, seed int64, results []*sym.JobResult, extraSamples []interface{}, wall time.Duration, inconcl []string, validated, mismatches int, knownLines, violLines []string) evSummary {
	var s evSummary
	var steps int64
	funcs := map[string]int{}
	obligations, trivial := 0, 0
	covers := map[string]int{}
	asserts := map[string]int{}

	var samples []interface{}
	pathsByEnd := map[string]int{}
	var maxQ time.Duration
	harnesses := map[string]int{}
	for _, r := range results {
		if r == nil {
			continue
		}
		s.paths += r.Paths
		steps += r.Steps
		s.sat += r.Solver.Sat
		s.unsat += r.Solver.Unsat
		s.unknown += r.Solver.Unknown
		s.solverS += r.Solver.Time.Seconds()
		if r.Solver.MaxQuery > maxQ {
			maxQ = r.Solver.MaxQuery
		}
		obligations += r.Obligations
		trivial += r.Trivial
		harnesses[r.Job.Harness]++
		for k, v := range r.Funcs {
			funcs[k] += v
		}
		for k, v := range r.Covers {
			covers[k] += v
		}
		for k, v := range r.Asserts {
			asserts[k] += v
		}
		for k, v := range r.PathsByEnd {
			pathsByEnd[k] += v
		}
	}
	// a few harness instances written out
	for i, r := range results {
		if r == nil || len(samples) >= 6 {
			break
		}
		if i%(1+len(results)/6) == 0 {
			samples = append(samples, map[string]interface{}{"kind": "harness instance", "job": r.Job.Key(), "paths": r.Paths, "path_ends": r.PathsByEnd,
				"obligations_discharged_by_solver": r.Obligations, "asserts_folded_true": r.Trivial, "covers": r.Covers, "wall_s": r.Wall.Seconds()})
		}
	}
	samples = append(samples, extraSamples...)
	if len(samples) == 0 {
		samples = append(samples, map[string]interface{}{"kind": "none", "note": "no job ran"})
	}
	var fl []string
	for k := range funcs {
		if strings.Contains(k, "vnd") {
			continue
		}
		fl = append(fl, k)
	}
	sort.Strings(fl)
	states := s.paths
	if states < 1 {
		states = 1
	}
	if steps < 1 {
		steps = 1
	}
	ev := map[string]interface{}{
		"property_id": def.ID,
		"tier":        tier,
		"seed":        seed,
		"level":       "model_checking",
		"wall_s":      wall.Seconds(),
		"violations":  len(violLines),
		"assumptions": append(append([]string{}, def.Assumptions...), def.Stubs...),
		"coverage": map[string]interface{}{
			"states":                        states,
			"transitions":                   steps,
			"traces_validated_against_impl": validated,
			"validation_mismatches":         mismatches,
			"samples":                       samples,
			"exhaustive":                    false,
			"technique":                     "bounded symbolic execution of go/ssa built from /repo's working tree; every assertion and every implicit panic check decided by z3 over all values of the symbolic inputs",
			"states_meaning":                "feasible execution paths explored (each covers all inputs satisfying its path condition)",
			"transitions_meaning":           "SSA instructions executed symbolically",
			"harness_instances":             len(results),
			"harnesses":                     harnesses,
			"functions_encoded":             fl,
			"functions_encoded_count":       len(fl),
			"bounds":                        def.Bounds[tier],
			"outside_claim":                 def.Outside,
			"stubs":                         def.Stubs,
			"queries":                       map[string]int{"sat": s.sat, "unsat": s.unsat, "unknown": s.unknown},
			"solver_time_s":                 s.solverS,
			"slowest_query_s":               maxQ.Seconds(),
			"obligations":                   obligations + trivial,
			"discharged":                    obligations + trivial - len(violLines),
			"obligations_by_solver":         obligations,
			"obligations_folded_true":       trivial,
			"asserts_proved_by_label":       asserts,
			"covers":                        covers,
			"path_ends":                     pathsByEnd,
			"solver_crosscheck":             map[string]interface{}{"sampled_queries": lastCross.Queries, "solver_runs": lastCross.Runs, "agree": lastCross.Agree, "disagreements": lastCross.Disagree, "no_verdict_within_time_limit": lastCross.NoVerdict, "solvers": "z3 4.8.12, cvc5 1.0 (one-shot on the full SMT-LIB2 script of each sampled query)"},
			"known_findings_reproduced":     knownLines,
			"inconclusive":                  inconcl,
			"solver":                        "primary " + smt.Primary.String() + " (-in, incremental push/pop); cross-check with the other two of {z3 4.8.12, z3 5.1.0, cvc5 1.0}",
		},
	}
	b, _ := json.MarshalIndent(ev, "", " ")
	os.MkdirAll(filepath.Join(verifDir(), "evidence"), 0o755)
	os.WriteFile(filepath.Join(verifDir(), "evidence", def.ID+".json"), b, 0o644)
	return s
}

func replayMain(args []string) int {
	if len(args) == 0 {
		fmt.Println("usage: vsym --replay <tape.json>")
		return 2
	}
	repo := os.Getenv("VERIF_REPO")
	if repo == "" {
		repo = "/repo"
	}
	vd := verifDir()
	t, err := sym.ReadTape(args[0])
	if err != nil {
		fmt.Println(err)
		return 2
	}
	eng, err := sym.Load(repo, filepath.Join(vd, "harness"))
	if err != nil {
		fmt.Println("load:", err)
		return 2
	}
	pn, pr := eng.PkgOfHarness(t.Harness)
	work := filepath.Join(vd, ".work", fmt.Sprintf("replay-%d", os.Getpid()))
	defer os.RemoveAll(work)
	abs, _ := filepath.Abs(args[0])
	outs, raw, err := eng.NativeReplay(pn, pr, []string{abs}, work)
	if err != nil {
		fmt.Println(raw)
	}
	o := outs[0]
	fmt.Printf("harness=%s params=%v kind=%s label=%q\nnative outcome: %s\nnative log: %v\n", t.Harness, t.Params, t.Kind, t.Label, o.Outcome, o.Log)
	if sym.Confirms(t, o) {
		if t.Kind == "violation" {
			fmt.Println("REPRODUCED")
			return 1
		}
		fmt.Println("CONFIRMED")
		return 0
	}
	fmt.Println("NOT REPRODUCED")
	return 0
}

package main

import "verif/engine/sym"

const c10Entries = 50

func init() {
	register(&CheckDef{
		ID: "C10",
		Jobs: func(tier string) []sym.Job {
			ls := append(rng(0, 24), rng(250, 262)...)
			if tier == "thorough" {
				ls = append(rng(0, 300), 301, 400, 600)
			}
			var js []sym.Job
			for li := len(ls) - 1; li >= 0; li-- { // longest inputs first (they dominate the wall time)
				l := ls[li]
				for fn := 0; fn < c10Entries; fn++ {
					// whole-frame CRC over many symbolic bytes is only abstracted where the property does not depend on its value
					js = append(js, sym.Job{Harness: "VH_C10_parser", Params: map[string]int{"fn": fn, "L": l}, AbstractCRC: l > 24})
				}
			}
			return js
		},
		Bounds: map[string]string{
			"quick":    "50 parse entry points x input length L in {0..24, 250..262}; all L bytes and 8 bytes of spare capacity symbolic",
			"thorough": "50 parse entry points x input length L in {0..300, 301, 400, 600}; all L bytes and 8 bytes of spare capacity symbolic",
		},
		Outside:   []string{"inputs longer than the listed lengths", "spare capacity beyond 8 bytes"},
		MinCovers: []string{"accepted", "rejected", "returned"},
	})
}

package main

import "verif/engine/sym"

func init() {
	register(&CheckDef{
		ID: "C06",
		Jobs: func(tier string) []sym.Job {
			var js []sym.Job
			add := func(k, target int, cs ...int) {
				pm := map[string]int{"k": k, "target": target, "c0": 0, "c1": 0, "c2": 0, "c3": 0}
				for i, c := range cs {
					pm[[]string{"c0", "c1", "c2", "c3"}[i]] = c
				}
				js = append(js, sym.Job{Harness: "VH_C06_batches", Params: pm, MaxPath: 400000})
			}
			regClasses := ints(0, 1, 2, 3, 5, 6, 7)
			targets := ints(0, 3, 4, 7)
			if tier == "thorough" {
				targets = rng(0, 7)
			}
			for _, t := range targets {
				add(0, t)
				coil := t < 4
				// one field: every class
				for c := 0; c <= 7; c++ {
					add(1, t, c)
				}
				// two fields
				if coil {
					add(2, t, 4, 4)
					add(2, t, 4, 0)
					add(2, t, 4, 6)
					add(3, t, 4, 4, 4)
					add(3, t, 4, 0, 4)
				} else {
					for _, c0 := range regClasses {
						for _, c1 := range regClasses {
							if c1 < c0 {
								continue
							}
							add(2, t, c0, c1)
						}
					}
					add(2, t, 0, 4)
					// three fields: size classes
					for _, cs := range [][]int{{0, 0, 0}, {0, 1, 2}, {2, 2, 2}, {0, 4, 1}} {
						add(3, t, cs...)
					}
					if tier == "thorough" {
						for _, cs := range [][]int{{1, 1, 3}, {3, 3, 0}} {
						add(3, t, cs...)
					}
					for _, cs := range [][]int{{0, 0, 0, 0}, {0, 1, 2, 3}, {2, 2, 2, 2}} {
							add(4, t, cs...)
						}
					}
				}
			}
			return js
		},
		Bounds: map[string]string{
			"quick":    "lists of 0..3 fields; per field: server in {A,B} (case-split), unit id, address (all 65536), byte order, string length, bit number symbolic; field classes case-split over {Uint16, Int8, Uint32, Float64, String, Bit(any bit 0..255), Coil, invalid type}; split targets FC1-TCP, FC2-RTU, FC3-TCP, FC4-RTU; map iteration order: all permutations up to 3 groups",
			"thorough": "all 8 split targets; additionally selected lists of 4 fields",
		},
		Outside:   []string{"more than 3 (thorough: 4) fields", "more than 2 distinct server strings", "field types not in the class list are represented by a type of the same register size"},
		Stubs:     []string{"fmt.Sprintf(\"%v_%v_%v\") modelled as an injective encoding of its arguments; sort.Sort runs the real insertion sort (n<=12); range over map explores every iteration order"},
		MinCovers: []string{"batched", "builder-error"},
	})
}

package main

import "verif/engine/sym"

func init() {
	register(&CheckDef{
		ID: "C06",
		Jobs: func(tier string) []sym.Job {
			var js []sym.Job
			add := func(k, target int, cs ...int) {
				pm := map[string]int{"k": k, "target": target, "c0": 0, "c1": 0, "c2": 0, "c3": 0, "tricky": 0, "pre": 0}
				for i, c := range cs {
					pm[[]string{"c0", "c1", "c2", "c3"}[i]] = c
				}
				js = append(js, sym.Job{Harness: "VH_C06_batches", Params: pm, MaxPath: 400000})
				mixed := false
				for _, c := range cs {
					if (c == 4) != (cs[0] == 4) {
						mixed = true
					}
				}
				if mixed {
					// lists that mix coils and registers: also after the same builder has produced the requests of the other
					// kind (what the first call does to the builder must not show in the second)
					pp := map[string]int{}
					for k2, v := range pm {
						pp[k2] = v
					}
					pp["pre"] = 1
					js = append(js, sym.Job{Harness: "VH_C06_batches", Params: pp, MaxPath: 400000})
				}
				if k == 2 && cs[0] == cs[1] && (cs[0] == 0 || cs[0] == 4) {
					// same-kind pairs also with adversarial concrete target names (prefix servers, ambiguous decimals)
					pt := map[string]int{}
					for k2, v := range pm {
						pt[k2] = v
					}
					pt["tricky"] = 1
					js = append(js, sym.Job{Harness: "VH_C06_batches", Params: pt, MaxPath: 400000})
				}
			}
			regClasses := ints(0, 1, 2, 3, 5, 6, 7)
			targets := ints(0, 3, 4, 7)
			if tier == "thorough" {
				targets = rng(0, 7)
			}
			for _, t := range targets {
				add(0, t)
				coil := t < 4
				// one field: every class
				for c := 0; c <= 7; c++ {
					add(1, t, c)
				}
				// two fields
				if coil {
					add(2, t, 4, 4)
					add(2, t, 4, 0)
					add(2, t, 4, 6)
					add(3, t, 4, 4, 4)
					add(3, t, 4, 0, 4)
				} else {
					// ordered pairs: the insertion order matters for fields that share an address
					for _, c0 := range regClasses {
						for _, c1 := range regClasses {
							if (c0 == 3 && c1 == 3) && t != 4 {
								continue // two symbolic-length strings: once (slowest job)
							}
							add(2, t, c0, c1)
						}
					}
					add(2, t, 0, 4)
					// three fields: size classes
					for _, cs := range [][]int{{0, 0, 0}, {0, 0, 1}, {0, 0, 2}, {0, 1, 1}, {0, 1, 2}, {0, 2, 2}, {1, 1, 1}, {1, 1, 2}, {1, 2, 2}, {2, 2, 2}, {2, 0, 0}, {2, 1, 0}, {1, 0, 0}, {2, 0, 1}, {0, 4, 1}} {
						add(3, t, cs...)
					}
					if tier == "thorough" {
						for _, cs := range [][]int{{1, 1, 3}} {
							add(3, t, cs...)
						}
						for _, cs := range [][]int{{0, 0, 0, 0}, {0, 1, 2, 2}, {2, 2, 2, 2}} {
							add(4, t, cs...)
						}
					}
				}
			}
			return js
		},
		Bounds: map[string]string{
			"quick":    "lists of 0..3 fields (all ordered pairs of classes; triples over the size classes 1/2/4 registers in sorted and in widest-first order); per field: server in {A,B} (case-split), unit id, address (all 65536), byte order, string length, bit number symbolic; field classes case-split over {Uint16, Int8, Uint32, Float64, String, Bit(any bit 0..255), Coil, invalid type}; split targets FC1-TCP, FC2-RTU, FC3-TCP, FC4-RTU; lists mixing coils and registers also after the same builder has first produced the requests of the other kind; additionally pairs of fields on adversarial CONCRETE targets (servers {h1,h11,h1_1} x units {1,2,11,12,21}: names that collide when concatenated without a separator); map iteration order: all permutations up to 3 groups",
			"thorough": "all 8 split targets; additionally the triple (Uint32, Uint32, String) and lists of 4 numeric fields (4 x Uint16, Uint16+Uint32+2 x Float64, 4 x Float64)",
		},
		Outside:   []string{"more than 3 (thorough: 4) fields", "more than 2 distinct server strings", "field types not in the class list are represented by a type of the same register size"},
		Stubs:     []string{"fmt.Sprintf(\"%v_%v_%v\") modelled as an injective encoding of its arguments; sort.Sort runs the real insertion sort (n<=12); range over map explores every iteration order"},
		MinCovers: []string{"batched", "builder-error"},
	})
}

func init() {
	register(&CheckDef{
		ID: "C05",
		Jobs: func(tier string) []sym.Job {
			var js []sym.Job
			add := func(k, target, lenient, trunc, strlen int, cs ...int) {
				pm := map[string]int{"k": k, "target": target, "lenient": lenient, "trunc": trunc, "strlen": strlen, "c0": 0, "c1": 0, "c2": 0, "c3": 0, "same": 0}
				for i, c := range cs {
					pm[[]string{"c0", "c1", "c2", "c3"}[i]] = c
				}
				pm["tricky"] = 0
				js = append(js, sym.Job{Harness: "VH_C05_extract", Params: pm, MaxPath: 400000, AbstractCRC: target%2 == 1})
			}
			th := tier == "thorough"
			targets := ints(4, 7)
			if th {
				targets = ints(4, 5, 6, 7)
			}
			single := ints(0, 1, 2, 3, 5, 7, 8, 9)
			for _, t := range targets {
				for _, c := range single {
					add(1, t, 0, 0, 5, c)
					add(1, t, 1, 1, 4, c)
					add(1, t, 0, 1, 4, c)
				}
				// the remaining field types (Int16, Int64, Float32, Byte, Uint8), alone: their decoding is compared with
				// the library-free decoder of the harness
				for _, c := range ints(10, 11, 12, 13, 14) {
					add(1, t, 0, 0, 5, c)
				}
				pairs := [][]int{{0, 1}, {1, 0}, {1, 2}, {2, 0}, {0, 2}, {2, 3}, {0, 0}, {1, 7}, {9, 7}, {3, 5}}
				if th && t == 4 {
					// every pair of classes, on the FC3-TCP target
					pairs = nil
					for i, a := range single {
						for _, b := range single[i:] {
							if a == 3 && b == 3 {
								continue // two strings at independent offsets: by far the slowest job; strings on the same registers are the same=1 job
							}
							pairs = append(pairs, []int{a, b})
						}
					}
				}
				// two fields of the same type on the same registers (byte orders symbolic and independent)
				for _, c := range ints(1, 3) {
					js = append(js, sym.Job{Harness: "VH_C05_extract", Params: map[string]int{"k": 2, "target": t, "lenient": 0, "trunc": 0, "strlen": 4, "c0": c, "c1": c, "c2": 0, "c3": 0, "tricky": 0, "same": 1}, MaxPath: 400000, AbstractCRC: t%2 == 1})
				}
				// three fields on one device, the later ones nested inside a long first one (request window must still reach
				// the end of the first)
				for _, lenient := range ints(0, 1) {
					js = append(js, sym.Job{Harness: "VH_C05_extract", Params: map[string]int{"k": 3, "target": t, "lenient": lenient, "trunc": 0, "strlen": 16, "c0": 3, "c1": 0, "c2": 1, "c3": 0, "tricky": 0, "same": 2}, MaxPath: 400000, AbstractCRC: t%2 == 1})
				}
				for _, p := range pairs {
					add(2, t, 0, 0, 3, p...)
					add(2, t, 1, 1, 3, p...)
					if th && t == 7 {
						add(2, t, 0, 1, 3, p...)
						add(2, t, 1, 2, 6, p...)
					}
				}
				if th && t == 4 {
					for _, cs := range [][]int{{0, 1, 2}, {1, 1, 3}, {2, 9, 0}} {
						add(3, t, 0, 0, 3, cs...)
						add(3, t, 1, 1, 3, cs...)
					}
				}
			}
			return js
		},
		Bounds: map[string]string{
			"quick":    "1..2 fields (thorough 3; plus one nested triple String(16)/Uint16/Uint32 and same-type pairs on the same registers) on 2 servers x 2 distinct symbolic unit ids; field address = symbolic base (whole address space) + offset case-split over {0,1,3,124} (straddling the 125-register limit); the first field is on server 0/unit 0 w.l.o.g.; classes {Uint16, Int8, Bit, Uint32, Int32, Float64, Uint64, String(len 3..6)}; byte order, bit, high/low symbolic; four independent symbolic memory images of 136 registers; FC3-TCP and FC4-RTU; strict and lenient extraction; conforming device and device truncating replies by 1 register",
			"thorough": "all four register targets; every pair of classes and three selected triples on FC3-TCP; strict extraction from a truncated reply and truncation by 2 registers on FC4-RTU",
		},
		Outside:   []string{"more than 2 (thorough: 3) fields, more than 2 servers / 2 unit ids per server", "offsets outside the case-split set", "the decode of a single field is C04's subject: the expected value is obtained with the same accessors over the whole memory image"},
		MinCovers: []string{"batched", "value-compared", "strict-short", "lenient-short"},
	})
}

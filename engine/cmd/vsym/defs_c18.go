package main

import "verif/engine/sym"

func init() {
	register(&CheckDef{
		ID: "C18",
		Jobs: func(tier string) []sym.Job {
			coil, byt := ints(1, 8, 9, 1968), ints(2, 4, 246)
			ls := append(rng(0, 20), rng(255, 264)...)
			if true { // the wider bound costs about 1.5 minutes: run it on every change
				coil, byt = append(rng(1, 64), 1000, 1967, 1968), append(rng(2, 40), 100, 200, 244, 246)
				ls = rng(0, 300)
			}
			var js []sym.Job
			for _, j := range reqJobs("VH_C18_prefixes", coil, byt, nil) {
				if j.Params["tcp"] == 1 {
					js = append(js, j)
				}
			}
			for i := len(ls) - 1; i >= 0; i-- {
				js = append(js, sym.Job{Harness: "VH_C18_agreement", Params: map[string]int{"L": ls[i]}})
			}
			return js
		},
		Bounds: map[string]string{
			"quick":    "every prefix of every TCP request of the 10 constructors (scalars symbolic; FC15 coil counts 1..64,1000,1967,1968; FC16/23 data lengths 2..40,100,200,244,246); classifier/dispatcher agreement on every byte string of length 0..300 (length field, function code, protocol id all symbolic)",
			"thorough": "same as quick (the bound is the claim)",
		},
		Outside:   []string{"frames longer than 300 bytes"},
		MinCovers: []string{"encoded", "classified", "complete-frame", "dispatcher-rejects", "unsupported-function", "not-a-frame"},
	})
}

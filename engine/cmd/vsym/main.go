package main

import (
	"encoding/json"
	"flag"
	"fmt"
	"os"
	"runtime/pprof"
	"strconv"
	"strings"
	"time"

	"verif/engine/smt"
	"verif/engine/sym"
)

func main() {
	switch os.Getenv("VERIF_SOLVER") {
	case "z3":
		smt.Primary = smt.Z3
	case "cvc5":
		smt.Primary = smt.CVC5
	}
	if pf := os.Getenv("VERIF_PROF"); pf != "" {
		f, _ := os.Create(pf)
		pprof.StartCPUProfile(f)
		defer pprof.StopCPUProfile()
	}
	if len(os.Args) > 1 && os.Args[1] == "job" {
		jobCmd(os.Args[2:])
		return
	}
	rc := checkMain(os.Args[1:])
	pprof.StopCPUProfile()
	os.Exit(rc)
}

// jobCmd: vsym job [-known a,b] Harness k=v ...   (debugging aid)
func jobCmd(args []string) {
	fs := flag.NewFlagSet("job", flag.ExitOnError)
	known := fs.String("known", "", "open known findings")
	repo := fs.String("repo", "/repo", "")
	hd := fs.String("harness", "/verif/harness", "")
	log := fs.String("smtlog", "", "")
	abs := fs.Bool("abs", false, "abstract CRC16")
	fs.Parse(args)
	rest := fs.Args()
	t0 := time.Now()
	eng, err := sym.Load(*repo, *hd)
	if err != nil {
		fmt.Println("load:", err)
		os.Exit(2)
	}
	fmt.Printf("loaded in %.1fs\n", time.Since(t0).Seconds())
	job := sym.Job{Harness: rest[0], Params: map[string]int{}, AbstractCRC: *abs}
	for _, kv := range rest[1:] {
		p := strings.SplitN(kv, "=", 2)
		v, _ := strconv.Atoi(p[1])
		job.Params[p[0]] = v
	}
	sol, err := smt.New(30000)
	if err != nil {
		panic(err)
	}
	if *log != "" {
		f, _ := os.Create(*log)
		sol.Log = f
	}
	ok := map[string]bool{}
	for _, k := range strings.Split(*known, ",") {
		if k != "" {
			ok[k] = true
		}
	}
	res := eng.RunJob(job, sol, sym.RunOpts{OpenKnown: ok, SampleEvery: 1})
	res.Funcs = nil
	b, _ := json.MarshalIndent(res, "", " ")
	fmt.Println(string(b))
}

package sym

import (
	"bytes"
	"encoding/json"
	"fmt"
	"os"
	"os/exec"
	"path/filepath"
	"regexp"
	"sort"
	"strconv"
	"strings"
	"time"
)

type ReplayOutcome struct {
	Outcome string   // ok | assert:<label> | panic:<msg> | known:<id> | stop:assume | error:<..>
	Log     []string // native event log
	Failed  []string
	Races   []string // data races the Go race detector reported between two accesses made by code under test
}

func (e *Engine) PkgOfHarness(h string) (name, rel string) {
	f := e.HarnessFunc(h)
	if f == nil {
		return "", ""
	}
	switch f.Pkg.Pkg.Path() {
	case RepoModule + "/packet":
		return "packet", "./packet"
	case RepoModule + "/server":
		return "server", "./server"
	}
	return "modbus", "."
}

const replayTestSrc = `//go:build verif

package PKG

import (
	"encoding/json"
	"fmt"
	"os"
	"strings"
	"testing"
)

var vndHarnesses = map[string]func(){
HARNESSES}

func vndRun(f func()) (out string) {
	defer func() {
		if r := recover(); r != nil {
			if s, ok := r.(vndStop); ok {
				out = "stop:" + s.why
				return
			}
			out = "panic:" + strings.ReplaceAll(fmt.Sprint(r), "\n", " ")
		}
	}()
	f()
	if len(vndFailed) > 0 {
		return "assert:" + vndFailed[0]
	}
	if len(vndKnownHits) > 0 {
		return "known:" + vndKnownHits[0]
	}
	return "ok"
}

func TestVerifReplay(t *testing.T) {
	list := strings.Split(os.Getenv("VERIF_TAPES"), ":")
	for i, p := range list {
		if p == "" {
			continue
		}
		if err := vndLoad(p); err != nil {
			fmt.Printf("VERIF-REPLAY %d outcome=error:%v log=[] failed=[]\n", i, err)
			continue
		}
		f := vndHarnesses[vndTape.Harness]
		if f == nil {
			fmt.Printf("VERIF-REPLAY %d outcome=error:no-such-harness log=[] failed=[]\n", i)
			continue
		}
		out := vndRun(f)
		if vndExhausted {
			out = "error:tape-exhausted(" + out + ")"
		}
		lg, _ := json.Marshal(vndLog)
		fl, _ := json.Marshal(vndFailed)
		fmt.Printf("VERIF-REPLAY %d outcome=%s log=%s failed=%s\n", i, strings.ReplaceAll(out, " ", "_"), lg, fl)
	}
}
`

var replayLine = regexp.MustCompile(`^VERIF-REPLAY (\d+) outcome=(\S+) log=(.*) failed=(.*)$`)

// NativeReplay runs the given tapes (all of one package) against the real build with `go test -overlay`.
func (e *Engine) NativeReplay(pkgName, pkgRel string, tapePaths []string, workDir string) ([]ReplayOutcome, string, error) {
	// tapes that predict a data race are replayed one by one under the Go race detector
	var plain []string
	var plainIdx []int
	all := make([]ReplayOutcome, len(tapePaths))
	var raws []string
	for i, p := range tapePaths {
		t, terr := ReadTape(p)
		if terr == nil && t.VKind == "race" {
			r1, raw1, _ := e.nativeReplayOnce(pkgName, pkgRel, []string{p}, workDir, true, 0)
			all[i] = r1[0]
			all[i].Races = raceReports(raw1, e.RepoDir)
			raws = append(raws, raw1)
			continue
		}
		if terr == nil && t.MapOrder && (t.Kind == "violation" || t.Kind == "known") {
			// the path depends on a map iteration order, which is random natively: repeat until the order is hit
			var r1 []ReplayOutcome
			var raw1 string
			for attempt := 0; attempt < 24; attempt++ {
				r1, raw1, _ = e.nativeReplayOnce(pkgName, pkgRel, []string{p}, workDir, false, 0)
				if Confirms(t, r1[0]) {
					break
				}
			}
			all[i] = r1[0]
			raws = append(raws, raw1)
			continue
		}
		if terr == nil && t.VKind == "panic" && strings.HasPrefix(t.Label, "DEADLOCK") {
			// a predicted deadlock hangs the test binary: replayed alone under a short deadline, the crash confirms it
			r1, raw1, err1 := e.nativeReplayOnce(pkgName, pkgRel, []string{p}, workDir, false, 30)
			all[i] = r1[0]
			if err1 != nil && strings.HasPrefix(r1[0].Outcome, "error:no-output") {
				if l := crashLine(raw1); l != "" {
					all[i].Outcome = "panic:test-process-crashed:" + l
				}
			}
			raws = append(raws, raw1)
			continue
		}
		plain = append(plain, p)
		plainIdx = append(plainIdx, i)
	}
	if len(plain) < len(tapePaths) {
		if len(plain) == 0 {
			return all, strings.Join(raws, "\n"), nil
		}
		r, raw, err := e.NativeReplay(pkgName, pkgRel, plain, workDir)
		for k, i := range plainIdx {
			if k < len(r) {
				all[i] = r[k]
			}
		}
		return all, raw + strings.Join(raws, "\n"), err
	}
	res, raw, err := e.nativeReplayOnce(pkgName, pkgRel, tapePaths, workDir, false, 0)
	if err == nil || len(tapePaths) == 1 {
		if err != nil && len(res) == 1 && strings.HasPrefix(res[0].Outcome, "error:no-output") {
			if l := crashLine(raw); l != "" {
				res[0].Outcome = "panic:test-process-crashed:" + l
			}
		}
		return res, raw, err
	}
	// the test binary died (e.g. a panic in a goroutine of the code under test): re-run the tapes without output one by one
	for i := range res {
		if !strings.HasPrefix(res[i].Outcome, "error:no-output") {
			continue
		}
		r1, raw1, err1 := e.nativeReplayOnce(pkgName, pkgRel, []string{tapePaths[i]}, workDir, false, 0)
		res[i] = r1[0]
		if err1 != nil && strings.HasPrefix(r1[0].Outcome, "error:no-output") {
			if l := crashLine(raw1); l != "" {
				res[i].Outcome = "panic:test-process-crashed:" + l
			}
		}
	}
	return res, raw, nil
}

func crashLine(raw string) string {
	for _, l := range strings.Split(raw, "\n") {
		t := strings.TrimSpace(l)
		if strings.HasPrefix(t, "panic:") || strings.HasPrefix(t, "fatal error:") {
			return strings.ReplaceAll(t, " ", "_")
		}
	}
	return ""
}

// raceReports extracts from the output of a -race run the reports whose two accesses are both made by code under
// test (innermost frame inside the repository that is not a harness file).
func raceReports(raw, repoDir string) []string {
	var out []string
	for _, blk := range strings.Split(raw, "WARNING: DATA RACE")[1:] {
		if i := strings.Index(blk, "=================="); i >= 0 {
			blk = blk[:i]
		}
		var sites []string
		harness := false
		for _, sec := range regexp.MustCompile(`(?m)^(Write at|Read at|Previous write at|Previous read at|Atomic [a-z ]+at)`).Split(blk, -1)[1:] {
			if i := strings.Index(sec, "\n\n"); i >= 0 {
				sec = sec[:i]
			}
			site := ""
			lines := strings.Split(sec, "\n")
			for j := 1; j+1 < len(lines); j += 2 {
				fn, file := strings.TrimSpace(lines[j]), strings.TrimSpace(lines[j+1])
				if !strings.HasPrefix(file, repoDir+"/") {
					continue
				}
				if k := strings.Index(file, " "); k >= 0 {
					file = file[:k]
				}
				if strings.Contains(filepath.Base(file), "zz_") {
					harness = true
				}
				site = fn + " " + strings.TrimPrefix(file, repoDir+"/")
				break
			}
			if site == "" {
				harness = true
			}
			sites = append(sites, site)
		}
		if !harness && len(sites) >= 2 {
			out = append(out, strings.Join(sites[:2], " || "))
		}
	}
	return out
}

func (e *Engine) nativeReplayOnce(pkgName, pkgRel string, tapePaths []string, workDir string, race bool, timeoutS int) ([]ReplayOutcome, string, error) {
	if timeoutS == 0 {
		timeoutS = 120 + 10*len(tapePaths)
	}
	if err := os.MkdirAll(workDir, 0o755); err != nil {
		return nil, "", err
	}
	repl := map[string]string{}
	for virt, real := range e.Overlay {
		repl[virt] = real
	}
	pdir := pkgDirOf(e.RepoDir, pkgName)
	// runtime files for every harness package (other packages may be compiled as dependencies with the tag on)
	for name := range harnessPkgDirs {
		if _, err := os.Stat(filepath.Join(e.HarnessDir, name)); err != nil {
			continue
		}
		rt := filepath.Join(workDir, "vnd_runtime_"+name+".go")
		if err := os.WriteFile(rt, []byte(strings.ReplaceAll(vndRuntimeSrc, "package PKG", "package "+name)), 0o644); err != nil {
			return nil, "", err
		}
		repl[filepath.Join(pkgDirOf(e.RepoDir, name), "zz_verif_vnd_runtime.go")] = rt
	}
	var hs strings.Builder
	path := harnessPkgDirs[pkgName]
	for _, h := range e.Harnesses[path] {
		fmt.Fprintf(&hs, "\t%q: %s,\n", h, h)
	}
	ts := strings.ReplaceAll(replayTestSrc, "package PKG", "package "+pkgName)
	ts = strings.ReplaceAll(ts, "HARNESSES", hs.String())
	tf := filepath.Join(workDir, "replay_"+pkgName+"_test.go")
	if err := os.WriteFile(tf, []byte(ts), 0o644); err != nil {
		return nil, "", err
	}
	repl[filepath.Join(pdir, "zz_verif_replay_test.go")] = tf
	ov, _ := json.Marshal(map[string]interface{}{"Replace": repl})
	ovf := filepath.Join(workDir, "overlay_"+pkgName+".json")
	if err := os.WriteFile(ovf, ov, 0o644); err != nil {
		return nil, "", err
	}
	args := []string{"test", "-tags", "verif", "-vet=off", "-count=1", "-run", "^TestVerifReplay$", "-v", "-timeout", fmt.Sprintf("%ds", timeoutS), "-overlay", ovf}
	// (a tape takes well under a second natively, a few seconds when the harness lets timers run; a predicted deadlock
	// makes the test binary hang, which the short deadline turns into the crash that confirms it)
	if race {
		args = append(args, "-race")
	}
	cmd := exec.Command("go", append(args, pkgRel)...)
	cmd.Dir = e.RepoDir
	cmd.Env = append(os.Environ(), "GOFLAGS=-mod=mod", "GOPROXY=off", "GOSUMDB=off", "GOTOOLCHAIN=local", "VERIF_TAPES="+strings.Join(tapePaths, ":"))
	var out bytes.Buffer
	cmd.Stdout = &out
	cmd.Stderr = &out
	t0 := time.Now()
	runErr := cmd.Run()
	_ = t0
	res := make([]ReplayOutcome, len(tapePaths))
	for i := range res {
		res[i].Outcome = "error:no-output"
	}
	for _, line := range strings.Split(out.String(), "\n") {
		m := replayLine.FindStringSubmatch(strings.TrimSpace(line))
		if m == nil {
			continue
		}
		i, _ := strconv.Atoi(m[1])
		if i < 0 || i >= len(res) {
			continue
		}
		res[i].Outcome = m[2]
		json.Unmarshal([]byte(m[3]), &res[i].Log)
		json.Unmarshal([]byte(m[4]), &res[i].Failed)
	}
	if runErr != nil {
		// test binary itself may have crashed (fatal error, os.Exit): surface the output
		return res, out.String(), fmt.Errorf("go test: %v", runErr)
	}
	return res, out.String(), nil
}

// WriteTape stores a tape as JSON.
func WriteTape(path string, t Tape) error {
	if err := os.MkdirAll(filepath.Dir(path), 0o755); err != nil {
		return err
	}
	b, _ := json.MarshalIndent(t, "", " ")
	return os.WriteFile(path, b, 0o644)
}

func ReadTape(path string) (Tape, error) {
	var t Tape
	b, err := os.ReadFile(path)
	if err != nil {
		return t, err
	}
	err = json.Unmarshal(b, &t)
	return t, err
}

// Confirms reports whether a native outcome confirms the engine's prediction for a tape.
func Confirms(t Tape, o ReplayOutcome) bool {
	switch t.Kind {
	case "violation":
		if t.VKind == "panic" {
			return strings.HasPrefix(o.Outcome, "panic:")
		}
		if t.VKind == "race" {
			return len(o.Races) > 0
		}
		for _, f := range o.Failed {
			if f == t.Label {
				return true
			}
		}
		return false
	case "known":
		for _, l := range o.Log {
			if l == "known:"+t.Label {
				return true
			}
		}
		return false
	case "validation":
		if o.Outcome != "ok" || len(o.Log) != len(t.Expect) {
			return false
		}
		// compared as multisets: Go's map iteration order is random natively, the executor explores every order
		a := append([]string(nil), o.Log...)
		b := append([]string(nil), t.Expect...)
		sort.Strings(a)
		sort.Strings(b)
		for i := range a {
			if a[i] != b[i] {
				return false
			}
		}
		return true
	}
	return false
}

func SortedKeys(m map[string]int) []string {
	ks := make([]string, 0, len(m))
	for k := range m {
		ks = append(ks, k)
	}
	sort.Strings(ks)
	return ks
}

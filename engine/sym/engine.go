package sym

import (
	"fmt"
	"go/token"
	"go/types"
	"os"
	"path/filepath"
	"sort"
	"strings"
	"sync"

	"golang.org/x/tools/go/packages"
	"golang.org/x/tools/go/ssa"
	"golang.org/x/tools/go/ssa/ssautil"
)

const RepoModule = "github.com/aldas/go-modbus-client"

// Engine holds the SSA program built from the repository's current working tree.
type Engine struct {
	RepoDir    string
	HarnessDir string
	Fset       *token.FileSet
	Prog       *ssa.Program
	Pkgs       map[string]*ssa.Package // by import path
	Overlay    map[string]string       // virtual path -> real harness file (for native replay)
	VndFiles   map[string]string       // pkg dir -> generated native runtime source
	Harnesses  map[string][]string     // pkg import path -> VH_ function names

	ConcretizeCap int
	MaxAlloc      int
	MapPermMax    int

	shapeMu sync.Mutex
	shapes  map[*ssa.BasicBlock]*ifShape
	shapeOK map[*ssa.BasicBlock]bool

	LoadSeconds float64
}

var harnessPkgDirs = map[string]string{
	"packet": RepoModule + "/packet",
	"modbus": RepoModule,
	"server": RepoModule + "/server",
}

func pkgDirOf(repo, name string) string {
	switch name {
	case "packet":
		return filepath.Join(repo, "packet")
	case "server":
		return filepath.Join(repo, "server")
	}
	return repo
}

// Load builds SSA for the repo packages with the harness files overlaid.
func Load(repoDir, harnessDir string) (*Engine, error) {
	e := &Engine{RepoDir: repoDir, HarnessDir: harnessDir, Overlay: map[string]string{}, Pkgs: map[string]*ssa.Package{},
		ConcretizeCap: 600, MaxAlloc: 70000, MapPermMax: 3,
		shapes: map[*ssa.BasicBlock]*ifShape{}, shapeOK: map[*ssa.BasicBlock]bool{}, Harnesses: map[string][]string{}}
	overlay := map[string][]byte{}
	for name := range harnessPkgDirs {
		dir := filepath.Join(harnessDir, name)
		ents, err := os.ReadDir(dir)
		if err != nil {
			continue
		}
		for _, en := range ents {
			if !strings.HasSuffix(en.Name(), ".go") || strings.HasSuffix(en.Name(), "_test.go") {
				continue
			}
			src, err := os.ReadFile(filepath.Join(dir, en.Name()))
			if err != nil {
				return nil, err
			}
			virt := filepath.Join(pkgDirOf(repoDir, name), "zz_verif_"+en.Name())
			overlay[virt] = src
			e.Overlay[virt] = filepath.Join(dir, en.Name())
		}
		// native runtime for vnd* (also used by the symbolic load: bodies are ignored, calls are intercepted)
		rt := []byte(strings.ReplaceAll(vndRuntimeSrc, "package PKG", "package "+name))
		virt := filepath.Join(pkgDirOf(repoDir, name), "zz_verif_vnd_runtime.go")
		overlay[virt] = rt
	}
	cfg := &packages.Config{
		Mode:       packages.LoadAllSyntax,
		Dir:        repoDir,
		BuildFlags: []string{"-tags=verif"},
		Overlay:    overlay,
		Env:        append(os.Environ(), "GOFLAGS=-mod=mod", "GOPROXY=off", "GOSUMDB=off", "GOTOOLCHAIN=local"),
	}
	pkgs, err := packages.Load(cfg, "./packet", ".", "./server")
	if err != nil {
		return nil, err
	}
	var errs []string
	packages.Visit(pkgs, nil, func(p *packages.Package) {
		for _, er := range p.Errors {
			errs = append(errs, er.Error())
		}
	})
	if len(errs) > 0 {
		return nil, fmt.Errorf("package load errors:\n%s", strings.Join(errs, "\n"))
	}
	prog, _ := ssautil.AllPackages(pkgs, ssa.InstantiateGenerics)
	prog.Build()
	e.Prog = prog
	e.Fset = prog.Fset
	for _, p := range prog.AllPackages() {
		e.Pkgs[p.Pkg.Path()] = p
	}
	for _, path := range harnessPkgDirs {
		p := e.Pkgs[path]
		if p == nil {
			continue
		}
		for name, m := range p.Members {
			if f, ok := m.(*ssa.Function); ok && strings.HasPrefix(name, "VH_") {
				_ = f
				e.Harnesses[path] = append(e.Harnesses[path], name)
			}
		}
		sort.Strings(e.Harnesses[path])
	}
	return e, nil
}

func (e *Engine) isRepoPkg(p *ssa.Package) bool {
	return strings.HasPrefix(p.Pkg.Path(), RepoModule)
}

func (e *Engine) ifShape(b *ssa.BasicBlock) *ifShape {
	e.shapeMu.Lock()
	defer e.shapeMu.Unlock()
	if done := e.shapeOK[b]; done {
		return e.shapes[b]
	}
	sh := computeIfShape(b)
	e.shapeOK[b] = true
	e.shapes[b] = sh
	return sh
}

func (e *Engine) lookupMethod(t types.Type, m *types.Func) *ssa.Function {
	sel := e.Prog.MethodSets.MethodSet(t).Lookup(m.Pkg(), m.Name())
	if sel == nil {
		return nil
	}
	return e.Prog.MethodValue(sel)
}

func (e *Engine) lookupMethodByName(t types.Type, pkg *types.Package, name string) *ssa.Function {
	sel := e.Prog.MethodSets.MethodSet(t).Lookup(pkg, name)
	if sel == nil {
		return nil
	}
	return e.Prog.MethodValue(sel)
}

func (e *Engine) errorStringType() types.Type {
	return e.Pkgs["errors"].Type("errorString").Type()
}

func (e *Engine) runtimeErrorType() types.Type {
	return types.NewPointer(e.errorStringType())
}

func (e *Engine) namedType(pkg, name string) types.Type {
	p := e.Pkgs[pkg]
	if p == nil {
		return nil
	}
	m := p.Type(name)
	if m == nil {
		return nil
	}
	return m.Type()
}

// HarnessFunc finds a harness by name in any of the repo packages.
func (e *Engine) HarnessFunc(name string) *ssa.Function {
	for _, path := range harnessPkgDirs {
		if p := e.Pkgs[path]; p != nil {
			if f := p.Func(name); f != nil {
				return f
			}
		}
	}
	return nil
}

func isVnd(f *ssa.Function) bool {
	return strings.HasPrefix(f.Name(), "vnd") && f.Pkg != nil && strings.HasPrefix(f.Pkg.Pkg.Path(), RepoModule)
}

// nopFunc returns a harness-provided function `func vhNop()` (used as a cancel function model).
func (e *Engine) nopFunc() *ssa.Function {
	for _, path := range harnessPkgDirs {
		if p := e.Pkgs[path]; p != nil {
			if f := p.Func("vhNop"); f != nil {
				return f
			}
		}
	}
	return nil
}

func (e *Engine) derivedCtxType() types.Type {
	for _, path := range harnessPkgDirs {
		if p := e.Pkgs[path]; p != nil {
			if t := p.Type("vndDerivedCtx"); t != nil {
				return t.Type()
			}
		}
	}
	return nil
}

// loopPhis counts the phi nodes at loop headers (blocks that dominate one of their predecessors) of the function
// whose String() is name; -1 if not found.
func (e *Engine) loopPhis(name string) int {
	for _, p := range e.Prog.AllPackages() {
		if !e.isRepoPkg(p) {
			continue
		}
		var found *ssa.Function
		for _, m := range p.Members {
			switch m := m.(type) {
			case *ssa.Function:
				if m.String() == name {
					found = m
				}
			case *ssa.Type:
				for _, t := range []types.Type{m.Type(), types.NewPointer(m.Type())} {
					ms := e.Prog.MethodSets.MethodSet(t)
					for i := 0; i < ms.Len(); i++ {
						if f := e.Prog.MethodValue(ms.At(i)); f != nil && f.String() == name {
							found = f
						}
					}
				}
			}
		}
		if found == nil || found.Blocks == nil {
			continue
		}
		n := 0
		for _, b := range found.Blocks {
			header := false
			for _, pr := range b.Preds {
				if b.Dominates(pr) {
					header = true
				}
			}
			if !header {
				continue
			}
			for _, ins := range b.Instrs {
				if _, ok := ins.(*ssa.Phi); ok {
					n++
				}
			}
		}
		return n
	}
	return -1
}

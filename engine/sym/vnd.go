package sym

import (
	"fmt"
	"go/types"
	"strings"

	"golang.org/x/tools/go/ssa"

	"verif/engine/smt"
	"verif/engine/term"
)

// vndRuntimeSrc is the native implementation of the vnd* API; the symbolic
// executor intercepts calls to these functions by name and never runs the bodies.
const vndRuntimeSrc = `//go:build verif

package PKG

import (
	"context"
	"encoding/json"
	"fmt"
	"math"
	"os"
	"reflect"
	"sync"
	"time"
	"unsafe"
)

type vndTapeT struct {
	Harness string         ` + "`json:\"harness\"`" + `
	Params  map[string]int ` + "`json:\"params\"`" + `
	Values  []uint64       ` + "`json:\"values\"`" + `
	Known   []string       ` + "`json:\"known\"`" + `
}

type vndStop struct{ why string }

// vndDerivedCtx is the shape the symbolic executor gives to contexts made by context.WithTimeout/WithDeadline in the
// code under test (natively the real ones are used; this type only has to exist and implement context.Context).
type vndDerivedCtx struct {
	parent context.Context
	done   chan struct{}
	err    error
}

func (c *vndDerivedCtx) Deadline() (time.Time, bool)       { return time.Time{}, false }
func (c *vndDerivedCtx) Done() <-chan struct{}             { return c.done }
func (c *vndDerivedCtx) Err() error                        { return c.err }
func (c *vndDerivedCtx) Value(key interface{}) interface{} { return c.parent.Value(key) }

var (
	vndTape      vndTapeT
	vndPos       int
	vndLog       []string
	vndFailed    []string
	vndKnownHits []string
	vndExhausted bool
)

func vndLoad(path string) error {
	raw, err := os.ReadFile(path)
	if err != nil {
		return err
	}
	vndTape = vndTapeT{}
	vndPos, vndLog, vndFailed, vndKnownHits, vndExhausted = 0, nil, nil, nil, false
	return json.Unmarshal(raw, &vndTape)
}

func vndNext() uint64 {
	if vndPos >= len(vndTape.Values) {
		vndExhausted = true
		return 0
	}
	v := vndTape.Values[vndPos]
	vndPos++
	return v
}

func vndU8(name string) uint8   { return uint8(vndNext()) }
func vndU16(name string) uint16 { return uint16(vndNext()) }
func vndU32(name string) uint32 { return uint32(vndNext()) }
func vndU64(name string) uint64 { return vndNext() }
func vndInt(name string) int    { return int(int64(vndNext())) }
func vndBool(name string) bool  { return vndNext()&1 == 1 }

func vndBytes(name string, n int, spare int) []byte {
	b := make([]byte, n+spare)
	for i := range b {
		b[i] = byte(vndNext())
	}
	return b[:n]
}

func vndBools(name string, n int) []bool {
	b := make([]bool, n)
	for i := range b {
		b[i] = vndNext()&1 == 1
	}
	return b
}

func vndChoice(name string, n int) int {
	v := int(int64(vndNext()))
	if v < 0 || v >= n {
		panic(vndStop{"assume"})
	}
	return v
}

func vndParam(name string) int {
	v, ok := vndTape.Params[name]
	if !ok {
		panic(fmt.Sprintf("vndParam: %s missing", name))
	}
	return v
}

func vndAssume(c bool) {
	if !c {
		panic(vndStop{"assume"})
	}
}

func vndAssert(c bool, label string) {
	if c {
		vndLog = append(vndLog, "assert:"+label+":ok")
	} else {
		vndLog = append(vndLog, "assert:"+label+":FAIL")
		vndFailed = append(vndFailed, label)
	}
}

func vndCover(label string) { vndLog = append(vndLog, "cover:"+label) }

func vndKnown(id string) bool {
	for _, k := range vndTape.Known {
		if k == id {
			return true
		}
	}
	return false
}

// vndDeepEqual is reflect.DeepEqual (the engine compares the symbolic values structurally).
func vndDeepEqual(a, b interface{}) bool { return reflect.DeepEqual(a, b) }

// vndIsNilPtr reports whether x holds a nil pointer.
func vndIsNilPtr(x interface{}) bool {
	if x == nil {
		return false
	}
	v := reflect.ValueOf(x)
	return v.Kind() == reflect.Ptr && v.IsNil()
}

func vndFloat64bits(f float64) uint64 { return math.Float64bits(f) }
func vndFloat32bits(f float32) uint32 { return math.Float32bits(f) }

// vndConcretize returns x; the symbolic executor forks over the feasible values of x so that the result is concrete.
func vndConcretize(x int) int { return x }

// vndSettle gives goroutines started by the code under test time to finish (the symbolic executor runs a goroutine
// to completion at its spawn point, so there is nothing to wait for).
func vndSettle() { time.Sleep(300 * time.Millisecond) }

// vndLoopPhis reports how many values the loops of the named function carry from one iteration to the next
// (phi nodes at loop headers in its SSA form); natively unknown (-1).
func vndLoopPhis(fn string) int { return -1 }

// vndRequire: a structural premise of an argument made in DESIGN.md; if it does not hold the check is inconclusive.
func vndRequire(c bool, why string) {}

// vndLockState reports the state of the mutexes (sync.Mutex / sync.RWMutex fields, whatever their names) of the
// struct obj points to: 0 = all free, 1 = one is held, 2 = the struct has no mutex field (the harness then skips its
// lock-discipline obligations instead of guessing how the object is protected).
func vndLockState(obj interface{}) int {
	v := reflect.ValueOf(obj)
	if v.Kind() != reflect.Ptr || v.Elem().Kind() != reflect.Struct {
		return 2
	}
	v = v.Elem()
	found := false
	for i := 0; i < v.NumField(); i++ {
		f := v.Field(i)
		if !f.CanAddr() {
			continue
		}
		switch m := reflect.NewAt(f.Type(), unsafe.Pointer(f.UnsafeAddr())).Interface().(type) {
		case *sync.Mutex:
			found = true
			if !m.TryLock() {
				return 1
			}
			m.Unlock()
		case *sync.RWMutex:
			found = true
			if !m.TryLock() {
				return 1
			}
			m.Unlock()
		}
	}
	if !found {
		return 2
	}
	return 0
}

// vndHammer (native): runs f (2 goroutines) and g (4 goroutines) concurrently, n times each, and panics if neither makes progress for 3 seconds:
// the native confirmation of a deadlock the executor predicts from its lock model (e.g. a recursive read lock,
// which only hangs when a writer arrives between the two RLock calls).
func vndHammer(n int, f, g func()) {
	var prog int64
	var mu sync.Mutex
	const workers = 6 // 2 run f, 4 run g
	done := make(chan struct{}, workers)
	run := func(h func()) {
		for i := 0; i < n; i++ {
			h()
			mu.Lock()
			prog++
			mu.Unlock()
		}
		done <- struct{}{}
	}
	for k := 0; k < workers; k++ {
		if k < 2 {
			go run(f)
		} else {
			go run(g)
		}
	}
	finished := 0
	last := int64(-1)
	for finished < workers {
		select {
		case <-done:
			finished++
		case <-time.After(3 * time.Second):
			mu.Lock()
			cur := prog
			mu.Unlock()
			if cur == last {
				panic(fmt.Sprintf("DEADLOCK: no call returned for 3 seconds (after %d calls)", cur))
			}
			last = cur
		}
	}
}

// vndRaceDetect switches the executor's happens-before race detection on for the rest of the path; vndRaceCheck
// reports what it found. Natively both do nothing: the replay of a race tape runs under go test -race.
func vndRaceDetect() {}
func vndRaceCheck()  {}

// vndWatchdog runs f and reports whether it returned (natively: within 3 seconds; symbolically: unless it blocks
// forever on a channel nobody can make ready).
func vndWatchdog(f func()) bool {
	done := make(chan struct{})
	go func() {
		defer close(done)
		f()
	}()
	select {
	case <-done:
		return true
	case <-time.After(3 * time.Second):
		return false
	}
}

// vndYield: a short pause (well below the clients' read timeout of the harnesses) that lets goroutines react.
func vndYield() { time.Sleep(15 * time.Millisecond) }

// vndAdvanceTime lets time pass beyond every pending timeout (symbolically: every time.After channel is ready).
func vndAdvanceTime() { time.Sleep(150 * time.Millisecond) }

func vndKnownHit(id string) {
	vndLog = append(vndLog, "known:"+id)
	vndKnownHits = append(vndKnownHits, id)
}
`

func (x *Exec) fresh(kind, name string, w int) *term.Term {
	idx := len(x.tape)
	if x.concreteTape != nil {
		var v uint64
		if x.ctPos < len(x.concreteTape) {
			v = x.concreteTape[x.ctPos]
		}
		x.ctPos++
		var t *term.Term
		if kind == "bool" {
			t = x.ctx.BoolC(v&1 == 1)
		} else {
			t = x.ctx.Const(w, v)
		}
		x.tape = append(x.tape, TapeEntry{Kind: kind, Name: name, T: t})
		return t
	}
	var t *term.Term
	vn := fmt.Sprintf("v%d_%s", idx, name)
	if kind == "bool" {
		t = x.ctx.Var(vn, term.Bool)
	} else {
		t = x.ctx.Var(vn, term.BV(w))
	}
	x.tape = append(x.tape, TapeEntry{Kind: kind, Name: name, T: t})
	return t
}

func strArg(v Value) string {
	s, ok := v.(Str)
	if !ok || s.Sym {
		return "?"
	}
	return s.S
}

func (x *Exec) vnd(name string, args []Value) Value {
	c := x.ctx
	switch name {
	case "vndU8":
		return x.fresh("u8", strArg(args[0]), 8)
	case "vndU16":
		return x.fresh("u16", strArg(args[0]), 16)
	case "vndU32":
		return x.fresh("u32", strArg(args[0]), 32)
	case "vndU64":
		return x.fresh("u64", strArg(args[0]), 64)
	case "vndInt":
		return x.fresh("int", strArg(args[0]), 64)
	case "vndBool":
		return x.fresh("bool", strArg(args[0]), 1)
	case "vndBytes":
		n := x.cint(args[1].(*term.Term), "vndBytes n")
		sp := x.cint(args[2].(*term.Term), "vndBytes spare")
		arr := x.newArrayCell(x.eng.byteType(), n+sp)
		nm := strArg(args[0])
		for i := 0; i < n+sp; i++ {
			arr.Kids[i].V = x.fresh("u8", fmt.Sprintf("%s[%d]", nm, i), 8)
		}
		return Slice{Arr: arr, Off: x.i64(0), Len: x.i64(n), Cap: x.i64(n + sp)}
	case "vndBools":
		n := x.cint(args[1].(*term.Term), "vndBools n")
		arr := x.newArrayCell(x.eng.boolType(), n)
		nm := strArg(args[0])
		for i := 0; i < n; i++ {
			arr.Kids[i].V = x.fresh("bool", fmt.Sprintf("%s[%d]", nm, i), 1)
		}
		return Slice{Arr: arr, Off: x.i64(0), Len: x.i64(n), Cap: x.i64(n)}
	case "vndChoice":
		n := x.cint(args[1].(*term.Term), "vndChoice n")
		v := x.fresh("int", strArg(args[0]), 64)
		if !v.IsConst() {
			x.assumeChecked(c.And(c.SLe(x.i64(0), v), c.SLt(v, x.i64(n))))
		} else if v.Int() < 0 || v.Int() >= int64(n) {
			panic(pathEnd{"assume", "vndChoice out of range"})
		}
		return x.i64(int(x.concretize(v, "vndChoice "+strArg(args[0]))))
	case "vndParam":
		nm := strArg(args[0])
		v, ok := x.params[nm]
		if !ok {
			x.unsupported("vndParam %q not provided", nm)
		}
		return x.i64(v)
	case "vndAssume":
		x.assumeChecked(args[0].(*term.Term))
		return nil
	case "vndAssert":
		x.assertOp(args[0].(*term.Term), strArg(args[1]))
		return nil
	case "vndCover":
		x.events = append(x.events, Event{Kind: "cover", Label: strArg(args[0]), OK: true})
		return nil
	case "vndKnown":
		return c.BoolC(x.openKnown[strArg(args[0])])
	case "vndFloat64bits":
		return stubFloat64bits(x, nil, args, nil)
	case "vndFloat32bits":
		return args[0]
	case "vndSettle", "vndYield":
		return nil
	case "vndLockState":
		ifc, ok := args[0].(Iface)
		if !ok {
			return x.i64(2)
		}
		p, ok := ifc.V.(Ptr)
		if !ok || p.C == nil {
			return x.i64(2)
		}
		found := false
		for _, k := range p.C.Kids {
			n, isNamed := k.T.(*types.Named)
			if !isNamed || n.Obj().Pkg() == nil || n.Obj().Pkg().Path() != "sync" || (n.Obj().Name() != "Mutex" && n.Obj().Name() != "RWMutex") {
				continue
			}
			found = true
			if x.mutexHeld[k] != 0 || x.readers(k) > 0 {
				return x.i64(1)
			}
		}
		if !found {
			return x.i64(2)
		}
		return x.i64(0)
	case "vndHammer":
		// symbolically: each body once, one after the other, as two goroutines (what can go wrong between them is
		// decided by the lock model and the race detector, not by running schedules)
		x.runGoroutine(parkedGo{fn: args[1]})
		x.runGoroutine(parkedGo{fn: args[2]})
		return nil
	case "vndRaceDetect":
		if x.race == nil {
			x.race = newRaceState()
			x.race.ensure(x.gid)
			x.race.gid = x.gid
		}
		return nil
	case "vndRaceCheck":
		x.raceReport()
		return nil
	case "vndWatchdog":
		returned := true
		func() {
			defer func() {
				if r := recover(); r != nil {
					if gp, ok := r.(*goPanic); ok && strings.HasPrefix(gp.Msg, "DEADLOCK") {
						returned = false
						x.rdHeld = nil
						x.mutexHeld = map[*Cell]int{} // the blocked goroutine keeps whatever it holds; the watchdog's caller goes on
						return
					}
					panic(r)
				}
			}()
			x.callValue(args[0], nil, nil)
		}()
		return c.BoolC(returned)
	case "vndLoopPhis":
		return x.i64(x.eng.loopPhis(strArg(args[0])))
	case "vndRequire":
		t := args[0].(*term.Term)
		if !t.IsTrue() {
			panic(pathEnd{"unsupported", "structural premise does not hold: " + strArg(args[1])})
		}
		return nil
	case "vndConcretize":
		return x.i64(int(x.concretize(args[0].(*term.Term), "vndConcretize")))
	case "vndAdvanceTime":
		for _, ch := range x.timerChans {
			if st, ok := ch.Tag.(*timerState); ok {
				if st.active && !st.fired {
					st.fired, st.pending = true, true
				}
				continue
			}
			ch.Ready = c.True()
		}
		x.timeAdvanced++
		x.clockNS += 150_000_000
		return nil
	case "vndLoopStepCRC16":
		return x.loopStepCRC16(args)
	case "vndDeepEqual":
		return x.deepEqual(args[0], args[1], 0)
	case "vndIsNilPtr":
		iv := args[0].(Iface)
		if iv.T == nil {
			return c.False()
		}
		p, ok := iv.V.(Ptr)
		return c.BoolC(ok && p.IsNil())
	case "vndKnownHit":
		id := strArg(args[0])
		x.events = append(x.events, Event{Kind: "known", Label: id, OK: true})
		r, m := x.check(nil, x.tapeVars())
		if r == smt.Sat {
			x.known = append(x.known, KnownHit{ID: id, Model: m})
		} else {
			x.known = append(x.known, KnownHit{ID: id})
		}
		return nil
	}
	x.unsupported("unknown vnd function %s", name)
	return nil
}

func (x *Exec) assumeChecked(cnd *term.Term) {
	if cnd.IsTrue() {
		return
	}
	if cnd.IsFalse() {
		panic(pathEnd{"assume", "assumption is false"})
	}
	if x.guard != nil {
		x.unsupported("assume inside if-converted region")
	}
	if d, ok := x.nextDecision(); ok {
		// recorded feasibility outcome
		x.taken = append(x.taken, d)
		if d.Val == 0 {
			panic(pathEnd{"assume", "assumption infeasible"})
		}
		x.assume(cnd)
		x.replayed()
		return
	}
	if v, ok := x.evalTerm(cnd); ok && v == 1 {
		x.taken = append(x.taken, Decision{1, true})
		x.assume(cnd)
		return
	}
	r, m := x.check(cnd, x.ctx.Vars)
	if r == smt.Unsat {
		x.taken = append(x.taken, Decision{0, true})
		panic(pathEnd{"assume", "assumption infeasible"})
	}
	if r == smt.Unknown {
		x.inconcl = append(x.inconcl, "solver unknown at assume "+x.where())
	}
	x.taken = append(x.taken, Decision{1, true})
	x.setModel(m)
	x.assume(cnd)
}

func (x *Exec) assertOp(cnd *term.Term, label string) {
	if cnd.IsTrue() {
		x.events = append(x.events, Event{Kind: "assert", Label: label, OK: true})
		x.trivAsserts++
		return
	}
	if x.guard == nil && x.knownFact(cnd) == 1 {
		x.events = append(x.events, Event{Kind: "assert", Label: label, OK: true})
		x.trivAsserts++
		return
	}
	neg := x.ctx.Not(cnd)
	if x.guard != nil {
		neg = x.ctx.And(x.guard, neg)
	}
	if d, ok := x.nextDecision(); ok && x.guard == nil {
		// outcome was recorded when this prefix was first explored (the violation was reported then)
		x.taken = append(x.taken, d)
		x.events = append(x.events, Event{Kind: "assert", Label: label, OK: d.Val == 1})
		if cnd.IsFalse() {
			panic(pathEnd{"exit", "assertion failed on every input of this path"})
		}
		if d.Val == 0 {
			x.assume(cnd)
		}
		x.replayed()
		return
	}
	var r smt.Result
	var m map[string]uint64
	if v, ok := x.evalTerm(cnd); ok && v == 0 && x.guard == nil && x.model != nil {
		r, m = smt.Sat, x.model // the concolic model is already a counterexample
	} else {
		r, m = x.check(neg, x.ctx.Vars)
	}
	x.obligations++
	switch r {
	case smt.Unsat:
		x.events = append(x.events, Event{Kind: "assert", Label: label, OK: true})
		if x.guard == nil {
			x.taken = append(x.taken, Decision{1, true})
		}
		return // cnd is implied; no need to assert it
	case smt.Unknown:
		x.inconcl = append(x.inconcl, fmt.Sprintf("solver unknown at assert %q %s", label, x.where()))
		x.events = append(x.events, Event{Kind: "assert", Label: label, OK: true})
	case smt.Sat:
		if m = x.refineCRC(neg, m); m == nil {
			// spurious under the CRC abstraction; the job will be re-run exactly
			x.events = append(x.events, Event{Kind: "assert", Label: label, OK: true})
			break
		}
		x.events = append(x.events, Event{Kind: "assert", Label: label, OK: false})
		x.viol = append(x.viol, Violation{Kind: "assert", Label: label, Model: m, Where: x.where(), Events: append([]Event(nil), x.events...)})
	}
	if x.guard != nil {
		return
	}
	x.taken = append(x.taken, Decision{0, true})
	if cnd.IsFalse() {
		panic(pathEnd{"exit", "assertion failed on every input of this path"})
	}
	// continue on the inputs that satisfy the assertion (if any)
	r2, m2 := x.check(cnd, x.ctx.Vars)
	if r2 == smt.Unsat {
		panic(pathEnd{"exit", "assertion failed on every input of this path"})
	}
	x.setModel(m2)
	x.assume(cnd)
}

// deepEqual mirrors reflect.DeepEqual on engine values.
func (x *Exec) deepEqual(a, b Value, depth int) *term.Term {
	c := x.ctx
	if depth > 12 {
		x.unsupported("vndDeepEqual: structure too deep")
	}
	switch av := a.(type) {
	case *term.Term:
		bv, ok := b.(*term.Term)
		if !ok || av.S != bv.S {
			return c.False()
		}
		if av.S.K == term.KF64 {
			x.unsupported("vndDeepEqual on floats")
		}
		return c.Eq(av, bv)
	case Str:
		bs, ok := b.(Str)
		if !ok {
			return c.False()
		}
		return x.strEq(av, bs)
	case Iface:
		bi, ok := b.(Iface)
		if !ok {
			return c.False()
		}
		if av.T == nil || bi.T == nil {
			return c.BoolC(av.T == nil && bi.T == nil)
		}
		if !types.Identical(av.T, bi.T) {
			return c.False()
		}
		return x.deepEqual(av.V, bi.V, depth+1)
	case Ptr:
		bp, ok := b.(Ptr)
		if !ok {
			return c.False()
		}
		if av.IsNil() || bp.IsNil() {
			return c.BoolC(av.IsNil() && bp.IsNil())
		}
		if av.C == nil || bp.C == nil {
			x.unsupported("vndDeepEqual on symbolic element pointers")
		}
		if av.C == bp.C {
			return c.True()
		}
		return x.deepEqual(x.loadCell(av.C), x.loadCell(bp.C), depth+1)
	case StructV:
		bs, ok := b.(StructV)
		if !ok || len(av.F) != len(bs.F) {
			return c.False()
		}
		r := c.True()
		for i := range av.F {
			r = c.And(r, x.deepEqual(av.F[i], bs.F[i], depth+1))
		}
		return r
	case ArrayV:
		bs, ok := b.(ArrayV)
		if !ok || len(av.E) != len(bs.E) {
			return c.False()
		}
		r := c.True()
		for i := range av.E {
			r = c.And(r, x.deepEqual(av.E[i], bs.E[i], depth+1))
		}
		return r
	case Slice:
		bs, ok := b.(Slice)
		if !ok {
			return c.False()
		}
		if (av.Arr == nil) != (bs.Arr == nil) {
			return c.False() // nil vs non-nil slice differ under DeepEqual
		}
		an, bn := x.cint(av.Len, "deepEqual len"), x.cint(bs.Len, "deepEqual len")
		if an != bn {
			return c.False()
		}
		if av.Arr == nil {
			return c.True()
		}
		ao, bo := x.cint(av.Off, "deepEqual off"), x.cint(bs.Off, "deepEqual off")
		r := c.True()
		for i := 0; i < an; i++ {
			r = c.And(r, x.deepEqual(x.loadCell(av.Arr.Kids[ao+i]), x.loadCell(bs.Arr.Kids[bo+i]), depth+1))
		}
		return r
	case *Closure:
		bc, _ := b.(*Closure)
		return c.BoolC(av == nil && bc == nil)
	case nil:
		return c.BoolC(b == nil)
	}
	x.unsupported("vndDeepEqual on %T", a)
	return nil
}

// loopStepCRC16: cut-point execution of one trip of packet.CRC16's range loop (see cutSpec).
func (x *Exec) loopStepCRC16(args []Value) Value {
	pkg := x.eng.Pkgs[RepoModule+"/packet"]
	fn := pkg.Func("CRC16")
	var header *ssa.BasicBlock
	for _, b := range fn.Blocks {
		if b.Comment == "rangeindex.loop" {
			header = b
		}
	}
	if header == nil {
		x.unsupported("CRC16 has no range loop header (shape changed): cut-point not applicable")
	}
	nphi := 0
	for _, ins := range header.Instrs {
		if _, ok := ins.(*ssa.Phi); ok {
			nphi++
		}
	}
	if nphi != 2 {
		x.unsupported("CRC16 loop carries %d values, expected exactly (crc, index)", nphi)
	}
	// which phi is the crc (uint16) and which the index (int)
	over := make([]Value, 2)
	crcPos := -1
	for i := 0; i < 2; i++ {
		phi := header.Instrs[i].(*ssa.Phi)
		if w, _, _ := typeWidth(phi.Type()); w == 16 {
			over[i] = args[1]
			crcPos = i
		} else {
			over[i] = args[2]
		}
	}
	if crcPos < 0 {
		x.unsupported("CRC16 loop: no 16-bit loop-carried value")
	}
	fr := &frame{fn: fn, regs: map[ssa.Value]Value{}, visits: map[*ssa.BasicBlock]int{}, cut: &cutSpec{header: header, override: over}}
	fr.regs[fn.Params[0]] = args[0]
	x.funcs[fn.String()+" [one loop trip from an arbitrary state]"]++
	var out Value
	func() {
		defer func() {
			if r := recover(); r != nil {
				if cb, ok := r.(cutBack); ok {
					out = Tuple{cb.vals[crcPos], cb.vals[1-crcPos], x.ctx.False(), x.ctx.Const(16, 0)}
					return
				}
				panic(r)
			}
		}()
		ret := x.runBlocks(fr, fn.Blocks[0], nil)
		out = Tuple{x.ctx.Const(16, 0), x.i64(0), x.ctx.True(), ret}
	}()
	return out
}

package sym

import (
	"fmt"
	"go/types"

	"golang.org/x/tools/go/ssa"

	"verif/engine/term"
)

// Value is one of:
//
//	*term.Term   bool / integers / float64 (sort F64) / float32 (carried as BV32 bits)
//	Ptr          pointer
//	Slice        slice
//	Str          string
//	Iface        interface value
//	StructV      struct value
//	ArrayV       array value
//	*Closure     func value (nil pointer = nil func)
//	*MapV        map (nil pointer = nil map)
//	*ChanV       channel
//	Tuple        multiple results
//	*ssa.Builtin builtin
type Value interface{}

type Cell struct {
	T    types.Type
	V    Value
	Kids []*Cell
	Name string // for diagnostics
	Tag  interface{}
}

// Ptr is a pointer. Plain: C != nil. Symbolic element pointer: Arr != nil, Idx symbolic (absolute index). nil: both nil.
type Ptr struct {
	C   *Cell
	Arr *Cell
	Idx *term.Term
}

func (p Ptr) IsNil() bool { return p.C == nil && p.Arr == nil }

type Slice struct {
	Arr           *Cell
	Off, Len, Cap *term.Term // BV64
}

type Str struct {
	S   string
	R   []*term.Term // runes (BV32) when Sym
	Sym bool
}

type Iface struct {
	T types.Type
	V Value
}

type StructV struct{ F []Value }
type ArrayV struct{ E []Value }
type Tuple []Value

type Closure struct {
	Fn    *ssa.Function
	Env   []Value
	Bound Value // receiver for bound method closures created by the engine (unused for ssa-made ones)
}

type MapV struct {
	KT, VT types.Type
	Keys   []Value
	Vals   []Value
}

type ChanV struct {
	Kind   string // "done", "timer", "generic", "derived"
	Ready  *term.Term
	Buf    []Value
	Tag    interface{}
	OnFire func() // runs when a select/receive observes the channel ready
	Cap    int    // buffer size of a channel made by the code (generic channels); -1 = not tracked
}

func typeWidth(t types.Type) (w int, signed bool, ok bool) {
	b, isB := t.Underlying().(*types.Basic)
	if !isB {
		return 0, false, false
	}
	switch b.Kind() {
	case types.Int8:
		return 8, true, true
	case types.Int16:
		return 16, true, true
	case types.Int32, types.UntypedRune:
		return 32, true, true
	case types.Int64, types.Int, types.UntypedInt:
		return 64, true, true
	case types.Uint8:
		return 8, false, true
	case types.Uint16:
		return 16, false, true
	case types.Uint32:
		return 32, false, true
	case types.Uint64, types.Uint, types.Uintptr:
		return 64, false, true
	}
	return 0, false, false
}

func isFloat64(t types.Type) bool {
	b, ok := t.Underlying().(*types.Basic)
	return ok && (b.Kind() == types.Float64 || b.Kind() == types.UntypedFloat)
}
func isFloat32(t types.Type) bool {
	b, ok := t.Underlying().(*types.Basic)
	return ok && b.Kind() == types.Float32
}
func isBool(t types.Type) bool {
	b, ok := t.Underlying().(*types.Basic)
	return ok && (b.Kind() == types.Bool || b.Kind() == types.UntypedBool)
}
func isString(t types.Type) bool {
	b, ok := t.Underlying().(*types.Basic)
	return ok && (b.Kind() == types.String || b.Kind() == types.UntypedString)
}

// isScalar reports whether values of t are single terms.
func isScalar(t types.Type) bool {
	if _, _, ok := typeWidth(t); ok {
		return true
	}
	return isBool(t) || isFloat64(t) || isFloat32(t)
}

func (x *Exec) zero(t types.Type) Value {
	switch u := t.Underlying().(type) {
	case *types.Basic:
		if w, _, ok := typeWidth(t); ok {
			return x.ctx.Const(w, 0)
		}
		switch {
		case isBool(t):
			return x.ctx.False()
		case isFloat64(t):
			return x.ctx.F64C(0)
		case isFloat32(t):
			return x.ctx.Const(32, 0)
		case isString(t):
			return Str{}
		case u.Kind() == types.UnsafePointer:
			return Ptr{}
		case u.Kind() == types.UntypedNil:
			return Ptr{}
		}
	case *types.Pointer:
		return Ptr{}
	case *types.Slice:
		z := x.ctx.Const(64, 0)
		return Slice{Off: z, Len: z, Cap: z}
	case *types.Interface:
		return Iface{}
	case *types.Struct:
		f := make([]Value, u.NumFields())
		for i := range f {
			f[i] = x.zero(u.Field(i).Type())
		}
		return StructV{f}
	case *types.Array:
		e := make([]Value, u.Len())
		for i := range e {
			e[i] = x.zero(u.Elem())
		}
		return ArrayV{e}
	case *types.Signature:
		return (*Closure)(nil)
	case *types.Map:
		return (*MapV)(nil)
	case *types.Chan:
		return (*ChanV)(nil)
	case *types.Tuple:
		tu := make(Tuple, u.Len())
		for i := range tu {
			tu[i] = x.zero(u.At(i).Type())
		}
		return tu
	}
	x.unsupported("zero value of type %v", t)
	return nil
}

func (x *Exec) newCell(t types.Type) *Cell {
	c := &Cell{T: t}
	switch u := t.Underlying().(type) {
	case *types.Struct:
		c.Kids = make([]*Cell, u.NumFields())
		for i := range c.Kids {
			c.Kids[i] = x.newCell(u.Field(i).Type())
		}
	case *types.Array:
		n := int(u.Len())
		c.Kids = make([]*Cell, n)
		for i := range c.Kids {
			c.Kids[i] = x.newCell(u.Elem())
		}
	default:
		c.V = x.zero(t)
	}
	return c
}

// newArrayCell makes an array cell of n elements of type et (for make/append).
func (x *Exec) newArrayCell(et types.Type, n int) *Cell {
	c := &Cell{T: types.NewArray(et, int64(n))}
	c.Kids = make([]*Cell, n)
	for i := range c.Kids {
		c.Kids[i] = x.newCell(et)
	}
	return c
}

func (x *Exec) loadCell(c *Cell) Value {
	if c.Kids == nil {
		if _, ok := c.T.Underlying().(*types.Array); ok {
			return ArrayV{}
		}
		if _, ok := c.T.Underlying().(*types.Struct); ok {
			return StructV{}
		}
		return c.V
	}
	if _, ok := c.T.Underlying().(*types.Struct); ok {
		f := make([]Value, len(c.Kids))
		for i, k := range c.Kids {
			f[i] = x.loadCell(k)
		}
		return StructV{f}
	}
	e := make([]Value, len(c.Kids))
	for i, k := range c.Kids {
		e[i] = x.loadCell(k)
	}
	return ArrayV{e}
}

func (x *Exec) storeCell(c *Cell, v Value) {
	if c.Kids == nil {
		if _, isArr := c.T.Underlying().(*types.Array); isArr {
			return
		}
		if _, isSt := c.T.Underlying().(*types.Struct); isSt {
			return
		}
		if g := x.guard; g != nil {
			nt, ok1 := v.(*term.Term)
			ot, ok2 := c.V.(*term.Term)
			if !ok1 || !ok2 {
				x.unsupported("guarded store of non-scalar")
			}
			c.V = x.ctx.Ite(g, nt, ot)
			return
		}
		c.V = v
		return
	}
	switch vv := v.(type) {
	case StructV:
		for i, k := range c.Kids {
			x.storeCell(k, vv.F[i])
		}
	case ArrayV:
		for i, k := range c.Kids {
			x.storeCell(k, vv.E[i])
		}
	default:
		x.unsupported("store of %T into aggregate cell %v", v, c.T)
	}
}

func (x *Exec) load(p Ptr) Value {
	if p.C != nil {
		return x.loadCell(p.C)
	}
	if p.Arr == nil {
		x.goPanic("nil pointer dereference", nil)
	}
	// symbolic index: ite chain (bounds were checked when the pointer was formed: lo..hi stored in Tag not needed)
	n := len(p.Arr.Kids)
	if n == 0 {
		x.unsupported("symbolic index into empty array")
	}
	if p.Arr.Kids[0].Kids != nil {
		x.unsupported("symbolic index load of aggregate element")
	}
	var acc *term.Term
	for i := n - 1; i >= 0; i-- {
		ev, ok := p.Arr.Kids[i].V.(*term.Term)
		if !ok {
			x.unsupported("symbolic index load of non-scalar element")
		}
		if acc == nil {
			acc = ev
			continue
		}
		acc = x.ctx.Ite(x.ctx.Eq(p.Idx, x.ctx.Const(64, uint64(i))), ev, acc)
	}
	return acc
}

func (x *Exec) store(p Ptr, v Value) {
	if p.C != nil {
		x.storeCell(p.C, v)
		return
	}
	if p.Arr == nil {
		x.goPanic("nil pointer dereference", nil)
	}
	nv, ok := v.(*term.Term)
	if !ok {
		x.unsupported("symbolic index store of non-scalar")
	}
	for i, k := range p.Arr.Kids {
		ov, ok := k.V.(*term.Term)
		if !ok {
			x.unsupported("symbolic index store into non-scalar element")
		}
		hit := x.ctx.Eq(p.Idx, x.ctx.Const(64, uint64(i)))
		if x.guard != nil {
			hit = x.ctx.And(x.guard, hit)
		}
		k.V = x.ctx.Ite(hit, nv, ov)
	}
}

// concrete helpers
func (x *Exec) cint(t *term.Term, what string) int {
	if t.IsConst() {
		return int(t.Int())
	}
	return int(x.concretize(t, what))
}

func (x *Exec) i64(v int) *term.Term { return x.ctx.ConstS(64, int64(v)) }

func fmtVal(v Value) string {
	switch t := v.(type) {
	case *term.Term:
		if t.IsConst() {
			return fmt.Sprintf("%d", t.Val)
		}
		return "sym"
	case Str:
		if !t.Sym {
			return fmt.Sprintf("%q", t.S)
		}
		return "symstr"
	}
	return fmt.Sprintf("%T", v)
}

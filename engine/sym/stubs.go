package sym

import (
	"fmt"
	"go/types"
	"os"
	"strings"

	"golang.org/x/tools/go/ssa"

	"verif/engine/smt"
	"verif/engine/term"
)

type stubFn func(x *Exec, f *Closure, args []Value, cc *ssa.CallCommon) Value

var stubs map[string]stubFn

func (e *Engine) byteType() types.Type { return types.Typ[types.Uint8] }
func (e *Engine) boolType() types.Type { return types.Typ[types.Bool] }

func init() {
	stubs = map[string]stubFn{
		"fmt.Errorf":  stubErrorf,
		"fmt.Sprintf": stubSprintf,
		"fmt.Fprintf": stubFprintf,
		"fmt.Sprint":  stubSprint,
		"fmt.Println": stubNop,
		"fmt.Printf":  stubNop,
		"log.Printf":  stubNop,
		"log.Println": stubNop,
		"errors.Is":   stubErrorsIs,
		"errors.As":   stubErrorsAs,
		"math.Ceil":   func(x *Exec, f *Closure, a []Value, cc *ssa.CallCommon) Value { return x.ctx.FPCeil(a[0].(*term.Term)) },
		"math.Floor": func(x *Exec, f *Closure, a []Value, cc *ssa.CallCommon) Value {
			return x.ctx.FPFloor(a[0].(*term.Term))
		},
		"math.Float32frombits": stubIdent,
		"math.Float32bits":     stubIdent,
		"math.Float64frombits": func(x *Exec, f *Closure, a []Value, cc *ssa.CallCommon) Value {
			return x.ctx.FPFromBits(a[0].(*term.Term))
		},
		"math.Float64bits":          stubFloat64bits,
		"math/rand.Intn":            stubRandIntn,
		"(*strings.Builder).Grow":   stubNop,
		"(*strings.Builder).String": stubBuilderString,
		"(*strings.Builder).Len":    func(x *Exec, f *Closure, a []Value, cc *ssa.CallCommon) Value { return x.strLen(x.builderGet(a[0])) },
		"(*strings.Builder).WriteString": func(x *Exec, f *Closure, a []Value, cc *ssa.CallCommon) Value {
			x.builderAppend(a[0], a[1].(Str))
			return Tuple{x.strLen(a[1].(Str)), Iface{}}
		},
		"(*strings.Builder).WriteByte": func(x *Exec, f *Closure, a []Value, cc *ssa.CallCommon) Value {
			x.builderAppend(a[0], Str{Sym: true, R: []*term.Term{x.ctx.ZExt(a[1].(*term.Term), 32)}})
			return Iface{}
		},
		"(*strings.Builder).WriteRune": func(x *Exec, f *Closure, a []Value, cc *ssa.CallCommon) Value {
			x.builderAppend(a[0], Str{Sym: true, R: []*term.Term{a[1].(*term.Term)}})
			return Tuple{x.i64(1), Iface{}}
		},
		"strings.Cut":                stubUnsupported,
		RepoModule + "/packet.CRC16": stubCRC16,
		"time.Sleep":                 stubNop,
	}
	registerEnvStubs()
}

func stubNop(x *Exec, f *Closure, a []Value, cc *ssa.CallCommon) Value {
	res := f.Fn.Signature.Results()
	switch res.Len() {
	case 0:
		return nil
	case 1:
		return x.zero(res.At(0).Type())
	}
	return x.zero(res)
}

func stubIdent(x *Exec, f *Closure, a []Value, cc *ssa.CallCommon) Value { return a[0] }

func stubUnsupported(x *Exec, f *Closure, a []Value, cc *ssa.CallCommon) Value {
	x.unsupported("call of %s", f.Fn)
	return nil
}

func stubFloat64bits(x *Exec, f *Closure, a []Value, cc *ssa.CallCommon) Value {
	t := a[0].(*term.Term)
	if t.IsConst() {
		return x.ctx.Const(64, t.Val)
	}
	if t.Op == term.OpFPFromBV {
		return t.Args[0]
	}
	if t.Op == term.OpIte {
		// push through ite of bit-reinterpretations
		var rec func(t *term.Term) *term.Term
		rec = func(t *term.Term) *term.Term {
			switch {
			case t.IsConst():
				return x.ctx.Const(64, t.Val)
			case t.Op == term.OpFPFromBV:
				return t.Args[0]
			case t.Op == term.OpIte:
				return x.ctx.Ite(t.Args[0], rec(t.Args[1]), rec(t.Args[2]))
			}
			x.unsupported("math.Float64bits of a computed float")
			return nil
		}
		return rec(t)
	}
	x.unsupported("math.Float64bits of a computed float")
	return nil
}

func stubRandIntn(x *Exec, f *Closure, a []Value, cc *ssa.CallCommon) Value {
	n := a[0].(*term.Term)
	if x.concreteTape != nil {
		return x.ctx.Const(64, 0)
	}
	v := x.ctx.Fresh("rand", term.BV(64))
	x.assume(x.ctx.And(x.ctx.SLe(x.i64(0), v), x.ctx.SLt(v, n)))
	return v
}

// ---------- errors ----------

func (x *Exec) newOpaqueError(text string) Value {
	es := x.eng.errorStringType()
	cell := x.newCell(es)
	cell.Kids[0].V = Str{S: text}
	return Iface{T: types.NewPointer(es), V: Ptr{C: cell}}
}

func stubErrorf(x *Exec, f *Closure, a []Value, cc *ssa.CallCommon) Value {
	format := strArg(a[0])
	if strings.Count(format, "%w") > 1 {
		// several %w verbs (Go 1.20): *fmt.wrapErrors, whose Unwrap returns all wrapped errors in argument order
		va := a[1].(Slice)
		n := x.cint(va.Len, "Errorf nargs")
		off := x.cint(va.Off, "Errorf off")
		wt := x.eng.namedType("fmt", "wrapErrors")
		if wt == nil {
			x.unsupported("fmt.wrapErrors type not found")
		}
		var errs []Value
		for i := 0; i < n; i++ {
			if iv, ok := va.Arr.Kids[off+i].V.(Iface); ok && iv.T != nil && types.Implements(iv.T, errorIface) {
				errs = append(errs, iv)
			}
		}
		et := types.Universe.Lookup("error").Type()
		arr := x.newArrayCell(et, len(errs))
		for i, e := range errs {
			arr.Kids[i].V = e
		}
		cell := x.newCell(wt)
		cell.Kids[0].V = Str{S: format}
		ln := x.i64(len(errs))
		cell.Kids[1].V = Slice{Arr: arr, Off: x.i64(0), Len: ln, Cap: ln}
		return Iface{T: types.NewPointer(wt), V: Ptr{C: cell}}
	}
	if strings.Contains(format, "%w") {
		// wrap the (first) error argument
		va := a[1].(Slice)
		n := x.cint(va.Len, "Errorf nargs")
		off := x.cint(va.Off, "Errorf off")
		for i := 0; i < n; i++ {
			if iv, ok := va.Arr.Kids[off+i].V.(Iface); ok && iv.T != nil && types.Implements(iv.T, errorIface) {
				wt := x.eng.namedType("fmt", "wrapError")
				if wt == nil {
					x.unsupported("fmt.wrapError type not found")
				}
				cell := x.newCell(wt)
				cell.Kids[0].V = Str{S: format}
				cell.Kids[1].V = iv
				return Iface{T: types.NewPointer(wt), V: Ptr{C: cell}}
			}
		}
	}
	return x.newOpaqueError(format)
}

var errorIface = types.Universe.Lookup("error").Type().Underlying().(*types.Interface)

// stubSprintf: concrete arguments are formatted for real; symbolic ones yield an
// injective encoding (format + one rune-pair per argument byte is overkill: we build
// a symbolic string from the format text and the symbolic argument terms).
func stubSprintf(x *Exec, f *Closure, a []Value, cc *ssa.CallCommon) Value {
	format := strArg(a[0])
	va := a[1].(Slice)
	n := x.cint(va.Len, "Sprintf nargs")
	off := x.cint(va.Off, "Sprintf off")
	var goArgs []interface{}
	allConcrete := true
	var symParts []Str
	for i := 0; i < n; i++ {
		iv, _ := va.Arr.Kids[off+i].V.(Iface)
		switch v := iv.V.(type) {
		case *term.Term:
			if v.IsConst() && v.S.K == term.KBV {
				_, signed, _ := typeWidth(iv.T)
				if signed {
					goArgs = append(goArgs, v.Int())
				} else {
					goArgs = append(goArgs, v.Val)
				}
				symParts = append(symParts, Str{S: fmt.Sprint(goArgs[len(goArgs)-1])})
			} else if v.IsConst() && v.S.K == term.KBool {
				goArgs = append(goArgs, v.Val == 1)
				symParts = append(symParts, Str{S: fmt.Sprint(v.Val == 1)})
			} else {
				allConcrete = false
				// injective encoding of a symbolic integer: one rune carrying the value (offset to keep it away from text)
				w := v.S.W
				if v.S.K != term.KBV || w > 16 {
					x.unsupported("Sprintf of symbolic %v-bit value", w)
				}
				r := x.ctx.Add(x.ctx.ZExt(v, 32), x.ctx.Const(32, 0x20000000))
				symParts = append(symParts, Str{Sym: true, R: []*term.Term{r}})
			}
		case Str:
			if v.Sym {
				allConcrete = false
			}
			goArgs = append(goArgs, v.S)
			symParts = append(symParts, v)
		default:
			allConcrete = false
			symParts = append(symParts, Str{S: "<opaque>"})
			x.sprintfOpaque++
		}
	}
	if allConcrete {
		return Str{S: fmt.Sprintf(format, goArgs...)}
	}
	// symbolic: split the format at verbs and interleave
	out := Str{}
	parts := splitFormat(format)
	ai := 0
	for _, p := range parts {
		if p == "%" {
			if ai < len(symParts) {
				out = x.strConcat(out, symParts[ai])
				ai++
			}
			continue
		}
		out = x.strConcat(out, Str{S: p})
	}
	return out
}

// splitFormat splits a format string into literal pieces and "%" markers (one per verb).
func splitFormat(f string) []string {
	var out []string
	cur := ""
	for i := 0; i < len(f); i++ {
		if f[i] == '%' && i+1 < len(f) {
			if f[i+1] == '%' {
				cur += "%"
				i++
				continue
			}
			if cur != "" {
				out = append(out, cur)
				cur = ""
			}
			// skip flags/width up to the verb letter
			j := i + 1
			for j < len(f) && !((f[j] >= 'a' && f[j] <= 'z') || (f[j] >= 'A' && f[j] <= 'Z')) {
				j++
			}
			out = append(out, "%")
			i = j
			continue
		}
		cur += string(f[i])
	}
	if cur != "" {
		out = append(out, cur)
	}
	return out
}

func stubOpaqueString(x *Exec, f *Closure, a []Value, cc *ssa.CallCommon) Value {
	return Str{S: "<fmt>"}
}

func stubFprintf(x *Exec, f *Closure, a []Value, cc *ssa.CallCommon) Value {
	w := a[0].(Iface)
	format := strArg(a[1])
	va := a[2].(Slice)
	if w.T != nil && w.T.String() == "*strings.Builder" && format == "%c" {
		off := x.cint(va.Off, "Fprintf off")
		iv := va.Arr.Kids[off].V.(Iface)
		r := iv.V.(*term.Term)
		if r.S.W < 32 {
			r = x.ctx.ZExt(r, 32)
		}
		x.builderAppend(w.V, Str{Sym: true, R: []*term.Term{r}})
		return Tuple{x.i64(1), Iface{}}
	}
	x.unsupported("fmt.Fprintf(%v, %q)", w.T, format)
	return nil
}

func (x *Exec) builderCell(v Value) *Cell {
	p := v.(Ptr)
	if p.C == nil {
		x.goPanic("nil *strings.Builder", nil)
	}
	return p.C
}

func (x *Exec) builderGet(v Value) Str {
	c := x.builderCell(v)
	if s, ok := x.side[c]; ok {
		return s.(Str)
	}
	return Str{}
}

func (x *Exec) builderAppend(v Value, s Str) {
	c := x.builderCell(v)
	x.side[c] = x.strConcat(x.builderGet(v), s)
}

func stubBuilderString(x *Exec, f *Closure, a []Value, cc *ssa.CallCommon) Value {
	s := x.builderGet(a[0])
	// normalise: a fully constant rune list becomes a concrete string
	if s.Sym {
		all := true
		var rs []rune
		for _, r := range s.R {
			if !r.IsConst() {
				all = false
				break
			}
			rs = append(rs, rune(r.Val))
		}
		if all {
			return Str{S: string(rs)}
		}
	}
	return s
}

// errors.Is / errors.As are executed by walking the Unwrap chain with the real Unwrap methods.

func (x *Exec) unwrapOnce(err Iface) (Iface, bool) {
	if err.T == nil {
		return Iface{}, false
	}
	ms := x.eng.Prog.MethodSets.MethodSet(err.T)
	for i := 0; i < ms.Len(); i++ {
		sel := ms.At(i)
		if sel.Obj().Name() != "Unwrap" {
			continue
		}
		sig := sel.Type().(*types.Signature)
		if sig.Params().Len() != 0 || sig.Results().Len() != 1 {
			continue
		}
		if !types.Identical(sig.Results().At(0).Type(), types.Universe.Lookup("error").Type()) {
			continue
		}
		fn := x.eng.Prog.MethodValue(sel)
		r := x.callValue(&Closure{Fn: fn}, []Value{err.V}, nil)
		return r.(Iface), true
	}
	return Iface{}, false
}

// unwrapMany handles errors whose Unwrap method returns []error (errors.Join, fmt.Errorf with several %w).
func (x *Exec) unwrapMany(err Iface) ([]Iface, bool) {
	if err.T == nil {
		return nil, false
	}
	ms := x.eng.Prog.MethodSets.MethodSet(err.T)
	for i := 0; i < ms.Len(); i++ {
		sel := ms.At(i)
		if sel.Obj().Name() != "Unwrap" {
			continue
		}
		sig := sel.Type().(*types.Signature)
		if sig.Params().Len() != 0 || sig.Results().Len() != 1 {
			continue
		}
		if _, isSlice := sig.Results().At(0).Type().Underlying().(*types.Slice); !isSlice {
			continue
		}
		fn := x.eng.Prog.MethodValue(sel)
		r := x.callValue(&Closure{Fn: fn}, []Value{err.V}, nil).(Slice)
		n := x.cint(r.Len, "Unwrap() []error len")
		off := x.cint(r.Off, "Unwrap() []error off")
		var out []Iface
		for k := 0; k < n; k++ {
			if iv, ok := r.Arr.Kids[off+k].V.(Iface); ok {
				out = append(out, iv)
			}
		}
		return out, true
	}
	return nil, false
}

// errTree lists the error and everything reachable from it through Unwrap, depth first in the order errors.Is/As
// visit it.
func (x *Exec) errTree(err Iface, depth int) []Iface {
	if err.T == nil {
		return nil
	}
	if depth > 16 {
		x.unsupported("error chain too deep")
	}
	out := []Iface{err}
	if many, ok := x.unwrapMany(err); ok {
		for _, e := range many {
			out = append(out, x.errTree(e, depth+1)...)
		}
		return out
	}
	if nxt, ok := x.unwrapOnce(err); ok && nxt.T != nil {
		out = append(out, x.errTree(nxt, depth+1)...)
	}
	return out
}

func (x *Exec) hasIsMethod(t types.Type) bool {
	ms := x.eng.Prog.MethodSets.MethodSet(t)
	for i := 0; i < ms.Len(); i++ {
		if ms.At(i).Obj().Name() == "Is" {
			return true
		}
	}
	return false
}

func stubErrorsIs(x *Exec, f *Closure, a []Value, cc *ssa.CallCommon) Value {
	err, target := a[0].(Iface), a[1].(Iface)
	if err.T == nil || target.T == nil {
		return x.ctx.BoolC(err.T == nil && target.T == nil)
	}
	for _, e := range x.errTree(err, 0) {
		if types.Comparable(e.T) {
			eq := x.valEq(e, target)
			if x.branch(eq) {
				return x.ctx.True()
			}
		}
		if x.hasIsMethod(e.T) {
			x.unsupported("errors.Is on a type with an Is method (%v)", e.T)
		}
	}
	return x.ctx.False()
}

func stubErrorsAs(x *Exec, f *Closure, a []Value, cc *ssa.CallCommon) Value {
	err := a[0].(Iface)
	tgt := a[1].(Iface) // interface{} holding *T
	if tgt.T == nil {
		x.goPanic("errors.As: target cannot be nil", nil)
	}
	pt, ok := tgt.T.Underlying().(*types.Pointer)
	if !ok {
		x.goPanic("errors.As: target must be a non-nil pointer", nil)
	}
	want := pt.Elem()
	for _, e := range x.errTree(err, 0) {
		if _, isIface := want.Underlying().(*types.Interface); isIface {
			if types.Implements(e.T, want.Underlying().(*types.Interface)) {
				x.store(tgt.V.(Ptr), e)
				return x.ctx.True()
			}
		} else if types.Identical(e.T, want) {
			x.store(tgt.V.(Ptr), e.V)
			return x.ctx.True()
		}
	}
	return x.ctx.False()
}

// stubCRC16: exact by default (the real code is executed); under Job.AbstractCRC a symbolic input yields an
// uninterpreted 16-bit value that is a function of the input terms only.
func stubCRC16(x *Exec, f *Closure, a []Value, cc *ssa.CallCommon) Value {
	if !x.abstractCRC {
		return x.call(f.Fn, a, f.Env)
	}
	s := a[0].(Slice)
	n := x.cint(s.Len, "CRC16 len")
	off := x.cint(s.Off, "CRC16 off")
	allConst := true
	var key strings.Builder
	for i := 0; i < n; i++ {
		t := s.Arr.Kids[off+i].V.(*term.Term)
		if !t.IsConst() {
			allConst = false
		}
		fmt.Fprintf(&key, "%d,", t.ID)
	}
	if allConst {
		return x.call(f.Fn, a, f.Env)
	}
	if x.crcMemo == nil {
		x.crcMemo = map[string]*term.Term{}
	}
	if v, ok := x.crcMemo[key.String()]; ok {
		return v
	}
	x.crcAbstracted++
	v := x.ctx.Var(fmt.Sprintf("crc!%d", len(x.crcMemo)), term.BV(16))
	x.crcMemo[key.String()] = v
	var ins []*term.Term
	for i := 0; i < n; i++ {
		ins = append(ins, s.Arr.Kids[off+i].V.(*term.Term))
	}
	// functional consistency with the earlier abstracted uses of the same length (Ackermann's reduction): equal
	// inputs give equal checksums. Without it two syntactically different but equal byte strings (a byte count
	// recomputed from a length, say) would get unrelated values and every such path would need the exact re-run.
	for _, u := range x.crcUses {
		if len(u.in) != len(ins) || len(ins) == 0 {
			continue
		}
		same := x.ctx.True()
		for i := range ins {
			same = x.ctx.And(same, x.ctx.Eq(u.in[i], ins[i]))
		}
		if !same.IsFalse() {
			x.assume(x.ctx.Implies(same, x.ctx.Eq(u.out, v)))
		}
	}
	x.crcUses = append(x.crcUses, crcUse{fn: f, in: ins, out: v})
	return v
}

type crcUse struct {
	fn  *Closure
	in  []*term.Term
	out *term.Term
}

// refineCRC turns a model found under the CRC abstraction into one in which every abstracted CRC value is the
// real CRC16 of its (model) input bytes: the inputs are pinned to their model values, the real code is run on
// those constants, and the solver is asked again. Returns nil if no consistent model exists for these inputs
// (the job is then re-run with the exact CRC).
func (x *Exec) refineCRC(extra *term.Term, m map[string]uint64) map[string]uint64 {
	if len(x.crcUses) == 0 || m == nil {
		return m
	}
	c := x.ctx
	for attempt := 0; attempt < 3; attempt++ {
		pin := c.True()
		memo := map[int]uint64{}
		consistent := true
		for _, u := range x.crcUses {
			arr := x.newArrayCell(x.eng.byteType(), len(u.in))
			for i, t := range u.in {
				bv := term.Eval(t, m, memo)
				arr.Kids[i].V = c.Const(8, bv)
				pin = c.And(pin, c.Eq(t, c.Const(8, bv)))
			}
			n := x.i64(len(u.in))
			save := x.abstractCRC
			x.abstractCRC = false
			real := x.call(u.fn.Fn, []Value{Slice{Arr: arr, Off: x.i64(0), Len: n, Cap: n}}, nil).(*term.Term)
			x.abstractCRC = save
			if term.Eval(u.out, m, memo) != real.Val {
				consistent = false
			}
			pin = c.And(pin, c.Eq(u.out, real))
		}
		if consistent {
			return m
		}
		q := pin
		if extra != nil {
			q = c.And(q, extra)
		}
		r, m2 := x.check(q, x.ctx.Vars)
		if r != smt.Sat {
			x.needExact = true
			x.refineFail = append(x.refineFail, fmt.Sprintf("refinement attempt %d: %v at %s", attempt, r, x.where()))
			if os.Getenv("VERIF_DEBUG") != "" {
				fmt.Fprintln(os.Stderr, "refineCRC failed:", x.refineFail[len(x.refineFail)-1])
			}
			return nil
		}
		m = m2
	}
	x.needExact = true
	return nil
}

// stubSprint: fmt.Sprint with concrete operands is formatted for real; symbolic operands are not modelled (the
// spacing rules make the result length data dependent), so the job is inconclusive rather than wrong.
func stubSprint(x *Exec, f *Closure, a []Value, cc *ssa.CallCommon) Value {
	va := a[0].(Slice)
	n := x.cint(va.Len, "Sprint nargs")
	off := x.cint(va.Off, "Sprint off")
	var goArgs []interface{}
	for i := 0; i < n; i++ {
		iv, _ := va.Arr.Kids[off+i].V.(Iface)
		switch v := iv.V.(type) {
		case *term.Term:
			if !v.IsConst() {
				x.unsupported("fmt.Sprint of a symbolic value")
			}
			if v.S.K == term.KBool {
				goArgs = append(goArgs, v.Val == 1)
			} else if _, signed, _ := typeWidth(iv.T); signed {
				goArgs = append(goArgs, v.Int())
			} else {
				goArgs = append(goArgs, v.Val)
			}
		case Str:
			if v.Sym {
				x.unsupported("fmt.Sprint of a symbolic string")
			}
			goArgs = append(goArgs, v.S)
		default:
			x.unsupported("fmt.Sprint of %T", iv.V)
		}
	}
	return Str{S: fmt.Sprint(goArgs...)}
}

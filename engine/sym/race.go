package sym

import (
	"fmt"
	"sort"
	"strings"

	"golang.org/x/tools/go/ssa"
)

// Happens-before race detection over the sequentialised goroutines of one symbolic path (vector clocks, in the style
// of DJIT+/FastTrack). Goroutines are still run one after the other, but every memory access made by code under test
// is stamped with the goroutine's vector clock, and the synchronisation the code performs (mutex, RWMutex, atomics,
// Once, channels, goroutine start) is what orders two accesses. Two accesses to the same memory cell from different
// goroutines, at least one a write, that no chain of such synchronisation orders are a data race IN SOME REAL
// SCHEDULE, although the engine never ran that schedule: the order in which the engine happened to run the two
// goroutines is not a reason for the accesses to be ordered. Enabled by the harness with vndRaceDetect().
//
// Accesses made by harness code (files zz_verif_*) are ignored: the harness is allowed to look at whatever it wants.

type raceAcc struct {
	gid   int
	clk   int32
	site  string
	write bool
}

type cellRace struct {
	w *raceAcc
	r []raceAcc
}

type raceState struct {
	gid   int
	vcs   [][]int32
	rel   map[interface{}][]int32 // release clocks of sync objects
	cells map[interface{}]*cellRace
	found map[string]bool
	order []string
}

func newRaceState() *raceState {
	return &raceState{vcs: [][]int32{{1}}, rel: map[interface{}][]int32{}, cells: map[interface{}]*cellRace{}, found: map[string]bool{}}
}

func vcJoin(a, b []int32) []int32 {
	for len(a) < len(b) {
		a = append(a, 0)
	}
	for i, v := range b {
		if v > a[i] {
			a[i] = v
		}
	}
	return a
}

func (r *raceState) clock(g int) int32 {
	vc := r.vcs[g]
	if g < len(vc) {
		return vc[g]
	}
	return 0
}

func (r *raceState) tick(g int) {
	for len(r.vcs[g]) <= g {
		r.vcs[g] = append(r.vcs[g], 0)
	}
	r.vcs[g][g]++
}

// spawn creates the clock of goroutine child, started by the current one.
func (r *raceState) spawn(child int) {
	r.ensure(child)
	vc := append([]int32(nil), r.vcs[r.gid]...)
	for len(vc) <= child {
		vc = append(vc, 0)
	}
	vc[child] = 1
	r.vcs[child] = vc
	r.tick(r.gid)
}

func (r *raceState) ensure(g int) {
	for len(r.vcs) <= g {
		n := len(r.vcs)
		vc := make([]int32, n+1)
		vc[n] = 1
		r.vcs = append(r.vcs, vc)
	}
}

func (r *raceState) acquire(key interface{}) {
	if rc, ok := r.rel[key]; ok {
		r.vcs[r.gid] = vcJoin(r.vcs[r.gid], rc)
	}
}

// release publishes the current goroutine's clock on key (joined with what is there when join is set).
func (r *raceState) release(key interface{}, join bool) {
	cur := append([]int32(nil), r.vcs[r.gid]...)
	if join {
		cur = vcJoin(cur, r.rel[key])
	}
	r.rel[key] = cur
	r.tick(r.gid)
}

func (r *raceState) ordered(a *raceAcc) bool {
	vc := r.vcs[r.gid]
	return a.gid == r.gid || (a.gid < len(vc) && a.clk <= vc[a.gid])
}

func (r *raceState) report(a *raceAcc, bSite string, bWrite bool) {
	kind := func(w bool) string {
		if w {
			return "write"
		}
		return "read"
	}
	p := []string{kind(a.write) + " " + a.site, kind(bWrite) + " " + bSite}
	sort.Strings(p)
	k := p[0] + " || " + p[1]
	if !r.found[k] {
		r.found[k] = true
		r.order = append(r.order, k)
	}
}

func (r *raceState) access(key interface{}, write bool, site string) {
	c := r.cells[key]
	if c == nil {
		c = &cellRace{}
		r.cells[key] = c
	}
	if c.w != nil && !r.ordered(c.w) {
		r.report(c.w, site, write)
	}
	me := raceAcc{gid: r.gid, clk: r.clock(r.gid), site: site, write: write}
	if write {
		for i := range c.r {
			if !r.ordered(&c.r[i]) {
				r.report(&c.r[i], site, true)
			}
		}
		c.w = &me
		c.r = c.r[:0]
		return
	}
	for i := range c.r {
		if c.r[i].gid == r.gid {
			c.r[i] = me
			return
		}
	}
	c.r = append(c.r, me)
}

// raceSite: the innermost function of a repository package on the call stack; ok=false when that is harness code
// (or there is none), in which case the access is not tracked.
func (x *Exec) raceSite() (string, bool) {
	for i := len(x.fnStack) - 1; i >= 0; i-- {
		fn := x.fnStack[i]
		root := fn
		for root.Parent() != nil {
			root = root.Parent()
		}
		if root.Pkg == nil || !x.eng.isRepoPkg(root.Pkg) {
			continue
		}
		file := x.eng.Fset.Position(root.Pos()).Filename
		if strings.Contains(file, "zz_verif_") || isVnd(root) {
			return "", false
		}
		if i == len(x.fnStack)-1 {
			return fn.String() + " " + x.where(), true
		}
		return fn.String() + " (in " + x.fnStack[len(x.fnStack)-1].String() + ")", true
	}
	return "", false
}

func (x *Exec) raceCell(c *Cell, write bool, site string) {
	if c.Kids != nil {
		for _, k := range c.Kids {
			x.raceCell(k, write, site)
		}
		return
	}
	x.race.access(c, write, site)
}

// raceCells records an access of the current goroutine to the given cells.
func (x *Exec) raceCells(write bool, cells ...*Cell) {
	if x.race == nil || len(cells) == 0 {
		return
	}
	site, ok := x.raceSite()
	if !ok {
		return
	}
	for _, c := range cells {
		if c != nil {
			x.raceCell(c, write, site)
		}
	}
}

func (x *Exec) racePtr(p Ptr, write bool) {
	if x.race == nil {
		return
	}
	if p.C != nil {
		x.raceCells(write, p.C)
	} else if p.Arr != nil {
		x.raceCells(write, p.Arr.Kids...)
	}
}

func (x *Exec) raceMap(m *MapV, write bool) {
	if x.race == nil || m == nil {
		return
	}
	if site, ok := x.raceSite(); ok {
		x.race.access(m, write, site)
	}
}

func (x *Exec) raceAcquire(key interface{}) {
	if x.race != nil {
		x.race.acquire(key)
	}
}

func (x *Exec) raceRelease(key interface{}, join bool) {
	if x.race != nil {
		x.race.release(key, join)
	}
}

type rdKey struct{ c *Cell }      // reader-release clock of an RWMutex
type recvSide struct{ ch *ChanV } // what receivers publish to later senders of a buffered channel

// raceReport turns the races found on this path into violations (called by vndRaceCheck at the end of a harness).
func (x *Exec) raceReport() {
	if x.race == nil {
		return
	}
	if len(x.race.order) == 0 {
		return
	}
	label := "no data race between goroutines sharing the object (happens-before)"
	x.events = append(x.events, Event{Kind: "assert", Label: label, OK: false})
	m := x.model
	if m == nil {
		_, m = x.check(x.ctx.True(), x.ctx.Vars)
	}
	x.viol = append(x.viol, Violation{Kind: "race", Label: label, Model: m, Where: strings.Join(x.race.order, " ;; "), Events: append([]Event(nil), x.events...)})
}

var _ = fmt.Sprintf
var _ *ssa.Function

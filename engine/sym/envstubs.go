package sym

import (
	"golang.org/x/tools/go/ssa"

	"verif/engine/term"
)

// Environment models: sync, time, context. All are part of the claim of every check that reaches them.

func registerEnvStubs() {
	lock := func(x *Exec, f *Closure, a []Value, cc *ssa.CallCommon) Value {
		c := a[0].(Ptr).C
		if x.mutexHeld[c] != 0 {
			x.goPanic("DEADLOCK: Lock of a mutex already held on this path ("+c.Name+")", nil)
		}
		x.mutexHeld[c] = 1
		x.lockEvents = append(x.lockEvents, "lock")
		return nil
	}
	unlock := func(x *Exec, f *Closure, a []Value, cc *ssa.CallCommon) Value {
		c := a[0].(Ptr).C
		if x.mutexHeld[c] == 0 {
			x.goPanic("sync: unlock of unlocked mutex", nil)
		}
		x.mutexHeld[c] = 0
		x.lockEvents = append(x.lockEvents, "unlock")
		return nil
	}
	tryLock := func(x *Exec, f *Closure, a []Value, cc *ssa.CallCommon) Value {
		c := a[0].(Ptr).C
		if x.mutexHeld[c] != 0 {
			return x.ctx.False()
		}
		x.mutexHeld[c] = 1
		return x.ctx.True()
	}
	for _, t := range []string{"(*sync.Mutex)", "(*sync.RWMutex)"} {
		stubs[t+".Lock"] = lock
		stubs[t+".Unlock"] = unlock
		stubs[t+".TryLock"] = tryLock
	}
	stubs["(*sync.RWMutex).RLock"] = lock
	stubs["(*sync.RWMutex).RUnlock"] = unlock

	// time: opaque instants; time.After returns a timer channel whose readiness is decided by the harness environment
	stubs["time.Now"] = func(x *Exec, f *Closure, a []Value, cc *ssa.CallCommon) Value {
		return x.zero(f.Fn.Signature.Results().At(0).Type())
	}
	stubs["time.After"] = func(x *Exec, f *Closure, a []Value, cc *ssa.CallCommon) Value {
		ch := &ChanV{Kind: "timer"}
		x.timerChans = append(x.timerChans, ch)
		x.timerDur = append(x.timerDur, a[0].(*term.Term))
		return ch
	}
}

package sym

import (
	"go/types"

	"golang.org/x/tools/go/ssa"

	"verif/engine/term"
)

// Environment models: sync, time, context. All are part of the claim of every check that reaches them.

// timerState: active = armed; fired = the timer went off; a fired timer holds one undelivered value until it is received.
type timerState struct {
	active, fired, pending bool
}

func registerEnvStubs() {
	// sync.Mutex / sync.RWMutex, sequential model: a writer flag and per-goroutine reader counts. A goroutine that
	// has to wait is parked (and run when the mutex is released) if waiting is the first thing it does; on the
	// harness's own path a wait can never end and is a DEADLOCK. A read lock taken by a goroutine that already
	// holds one is reported as well: a Lock call arriving from another goroutine in between blocks both forever
	// (the sync documentation prohibits recursive read locking for this reason).
	blocked := func(x *Exec, c *Cell, what string) {
		if x.inGo > 0 {
			panic(blockedOnLock{mu: c, steps: x.steps}) // a goroutine waits; it is run when the mutex is released
		}
		x.goPanic("DEADLOCK: "+what+" of a mutex already held on this path ("+c.Name+")", nil)
	}
	wake := func(x *Exec, c *Cell) {
		// goroutines parked on this mutex get it now, one after the other
		for len(x.parked[c]) > 0 && x.mutexHeld[c] == 0 && x.readers(c) == 0 {
			g := x.parked[c][0]
			x.parked[c] = x.parked[c][1:]
			x.runGoroutine(g)
		}
	}
	lock := func(x *Exec, f *Closure, a []Value, cc *ssa.CallCommon) Value {
		c := a[0].(Ptr).C
		if x.mutexHeld[c] != 0 || x.readers(c) > 0 {
			blocked(x, c, "Lock")
		}
		x.mutexHeld[c] = 1
		x.lockEvents = append(x.lockEvents, "lock")
		x.raceAcquire(c)
		x.raceAcquire(rdKey{c})
		return nil
	}
	unlock := func(x *Exec, f *Closure, a []Value, cc *ssa.CallCommon) Value {
		c := a[0].(Ptr).C
		if x.mutexHeld[c] == 0 {
			x.goPanic("sync: unlock of unlocked mutex", nil)
		}
		x.mutexHeld[c] = 0
		x.lockEvents = append(x.lockEvents, "unlock")
		x.raceRelease(c, false)
		wake(x, c)
		return nil
	}
	rlock := func(x *Exec, f *Closure, a []Value, cc *ssa.CallCommon) Value {
		c := a[0].(Ptr).C
		if x.mutexHeld[c] != 0 {
			blocked(x, c, "RLock")
		}
		if x.rdHeld == nil {
			x.rdHeld = map[*Cell]map[int]int{}
		}
		if x.rdHeld[c] == nil {
			x.rdHeld[c] = map[int]int{}
		}
		if x.rdHeld[c][x.gid] > 0 {
			x.goPanic("DEADLOCK: recursive RLock of a sync.RWMutex ("+c.Name+"): a Lock call arriving from another goroutine in between blocks both forever", nil)
		}
		x.rdHeld[c][x.gid]++
		x.lockEvents = append(x.lockEvents, "lock")
		x.raceAcquire(c)
		return nil
	}
	runlock := func(x *Exec, f *Closure, a []Value, cc *ssa.CallCommon) Value {
		c := a[0].(Ptr).C
		if x.readers(c) == 0 {
			x.goPanic("sync: RUnlock of unlocked RWMutex", nil)
		}
		g := x.gid
		if x.rdHeld[c][g] == 0 {
			for k, n := range x.rdHeld[c] { // released on behalf of another goroutine (allowed for RWMutex)
				if n > 0 {
					g = k
				}
			}
		}
		x.rdHeld[c][g]--
		x.lockEvents = append(x.lockEvents, "unlock")
		x.raceRelease(rdKey{c}, true) // readers publish to the next writer only
		wake(x, c)
		return nil
	}
	tryLock := func(x *Exec, f *Closure, a []Value, cc *ssa.CallCommon) Value {
		c := a[0].(Ptr).C
		if x.mutexHeld[c] != 0 || x.readers(c) > 0 {
			return x.ctx.False()
		}
		x.mutexHeld[c] = 1
		x.raceAcquire(c)
		x.raceAcquire(rdKey{c})
		return x.ctx.True()
	}
	for _, t := range []string{"(*sync.Mutex)", "(*sync.RWMutex)"} {
		stubs[t+".Lock"] = lock
		stubs[t+".Unlock"] = unlock
		stubs[t+".TryLock"] = tryLock
	}
	stubs["(*sync.RWMutex).RLock"] = rlock
	stubs["(*sync.RWMutex).RUnlock"] = runlock

	// time: opaque instants; time.After returns a timer channel whose readiness is decided by the harness environment
	// time.Now: a virtual clock that only moves when the harness calls vndAdvanceTime (150 ms per call, like its
	// native twin's sleep). The value is a wall-clock Time without monotonic reading, so Add/Sub/After run as real code.
	stubs["time.Now"] = func(x *Exec, f *Closure, a []Value, cc *ssa.CallCommon) Value {
		t := x.zero(f.Fn.Signature.Results().At(0).Type()).(StructV)
		const baseSec = 63_800_000_000 // seconds since year 1 (some day in 2022)
		ns := x.clockNS
		t.F[0] = x.ctx.Const(64, uint64(ns%1_000_000_000))
		t.F[1] = x.ctx.ConstS(64, baseSec+ns/1_000_000_000)
		return t
	}
	// sync/atomic primitives (sequential model: goroutines are run to completion at their spawn point)
	// (race detection: an atomic store/add publishes the goroutine's clock on the cell, an atomic load acquires it)
	load := func(x *Exec, f *Closure, a []Value, cc *ssa.CallCommon) Value {
		x.raceAcquire(a[0].(Ptr).C)
		return x.load(a[0].(Ptr))
	}
	store := func(x *Exec, f *Closure, a []Value, cc *ssa.CallCommon) Value {
		x.raceRelease(a[0].(Ptr).C, true)
		x.store(a[0].(Ptr), a[1])
		return nil
	}
	add := func(x *Exec, f *Closure, a []Value, cc *ssa.CallCommon) Value {
		x.raceAcquire(a[0].(Ptr).C)
		x.raceRelease(a[0].(Ptr).C, true)
		v := x.ctx.Add(x.load(a[0].(Ptr)).(*term.Term), a[1].(*term.Term))
		x.store(a[0].(Ptr), v)
		return v
	}
	for _, n := range []string{"Int32", "Int64", "Uint32", "Uint64", "Uintptr"} {
		stubs["sync/atomic.Load"+n] = load
		stubs["sync/atomic.Store"+n] = store
		stubs["sync/atomic.Add"+n] = add
	}
	stubs["(*sync.Once).Do"] = func(x *Exec, f *Closure, a []Value, cc *ssa.CallCommon) Value {
		c := a[0].(Ptr).C
		if _, done := x.side[c]; done {
			x.raceAcquire(c)
			return nil
		}
		x.side[c] = true
		x.callValue(a[1], nil, nil)
		x.raceRelease(c, true)
		return nil
	}
	// context: WithValue keeps the parent's cancellation behaviour (the value itself is not modelled);
	// WithCancel returns the parent and a cancel function that does nothing: sound where the derived context is only
	// cancelled when its user is done with it (connection.handle defers the cancel).
	stubs["context.WithValue"] = func(x *Exec, f *Closure, a []Value, cc *ssa.CallCommon) Value { return a[0] }
	stubs["context.WithCancel"] = func(x *Exec, f *Closure, a []Value, cc *ssa.CallCommon) Value {
		return Tuple{a[0], &Closure{Fn: x.eng.nopFunc()}}
	}
	// context.WithTimeout / WithDeadline in the code under test: a derived context (type vndDerivedCtx of the harness
	// runtime) that is done when its parent is done (same error) or when the harness lets time pass (DeadlineExceeded)
	derived := func(x *Exec, f *Closure, a []Value, cc *ssa.CallCommon) Value {
		ct := x.eng.derivedCtxType()
		if ct == nil {
			x.unsupported("context.WithTimeout: harness runtime type vndDerivedCtx not found")
		}
		parent := a[0].(Iface)
		cell := x.newCell(ct)
		cell.Kids[0].V = parent
		timer := &ChanV{Kind: "timer"}
		x.timerChans = append(x.timerChans, timer)
		parentDone := func() *ChanV {
			if parent.T == nil {
				return nil
			}
			fn := x.eng.lookupMethodByName(parent.T, nil, "Done")
			if fn == nil {
				x.unsupported("parent context without Done method")
			}
			ch, _ := x.callValue(&Closure{Fn: fn}, []Value{parent.V}, nil).(*ChanV)
			return ch
		}
		done := &ChanV{Kind: "derived"}
		done.Tag = func() *term.Term {
			return x.ctx.Or(x.chanReady(timer), x.chanReady(parentDone()))
		}
		done.OnFire = func() {
			if _, set := cell.Kids[2].V.(Iface); set && cell.Kids[2].V.(Iface).T != nil {
				return
			}
			if r := x.chanReady(parentDone()); r.IsTrue() {
				fn := x.eng.lookupMethodByName(parent.T, nil, "Err")
				cell.Kids[2].V = x.callValue(&Closure{Fn: fn}, []Value{parent.V}, nil)
				return
			}
			g := x.eng.Pkgs["context"].Var("DeadlineExceeded")
			cell.Kids[2].V = x.load(Ptr{C: x.globalCell(g)})
		}
		cell.Kids[1].V = done
		return Tuple{Iface{T: types.NewPointer(ct), V: Ptr{C: cell}}, &Closure{Fn: x.eng.nopFunc()}}
	}
	stubs["context.WithTimeout"] = derived
	stubs["context.WithDeadline"] = derived
	// timers: a timer channel delivers one value per firing; it fires when the harness lets time pass while it is
	// active. Stop/Reset have the documented return values.
	newTimer := func(x *Exec) *ChanV {
		ch := &ChanV{Kind: "timer", Tag: &timerState{active: true}}
		x.timerChans = append(x.timerChans, ch)
		return ch
	}
	stubs["time.NewTimer"] = func(x *Exec, f *Closure, a []Value, cc *ssa.CallCommon) Value {
		tt := f.Fn.Signature.Results().At(0).Type().(*types.Pointer).Elem()
		cell := x.newCell(tt)
		cell.Kids[0].V = newTimer(x)
		return Ptr{C: cell}
	}
	timerOf := func(x *Exec, v Value) (*ChanV, *timerState) {
		p := v.(Ptr)
		if p.C == nil {
			x.goPanic("nil pointer dereference (*time.Timer)", nil)
		}
		ch, _ := p.C.Kids[0].V.(*ChanV)
		if ch == nil {
			x.goPanic("time: Stop/Reset called on uninitialized Timer", nil)
		}
		st, _ := ch.Tag.(*timerState)
		if st == nil {
			x.unsupported("timer without state")
		}
		return ch, st
	}
	stubs["(*time.Timer).Stop"] = func(x *Exec, f *Closure, a []Value, cc *ssa.CallCommon) Value {
		_, st := timerOf(x, a[0])
		was := st.active && !st.fired
		st.active = false
		return x.ctx.BoolC(was)
	}
	stubs["(*time.Timer).Reset"] = func(x *Exec, f *Closure, a []Value, cc *ssa.CallCommon) Value {
		_, st := timerOf(x, a[0])
		was := st.active && !st.fired
		st.active, st.fired = true, false
		return x.ctx.BoolC(was)
	}
	stubs["time.After"] = func(x *Exec, f *Closure, a []Value, cc *ssa.CallCommon) Value {
		return newTimer(x)
	}
}

// readers: how many read locks of the RWMutex in cell c are held.
func (x *Exec) readers(c *Cell) int {
	n := 0
	for _, k := range x.rdHeld[c] {
		n += k
	}
	return n
}

package sym

import (
	"fmt"
	"math/rand"
	"runtime/debug"
	"sort"
	"time"

	"golang.org/x/tools/go/ssa"

	"verif/engine/smt"
	"verif/engine/term"
)

type Job struct {
	Harness string
	Params  map[string]int
	Unwind  int   // loop unwinding budget (per frame/block)
	MaxStep int64 // instruction budget per path
	MaxPath int   // path budget per job
	// AbstractCRC replaces packet.CRC16 on symbolic input by an uninterpreted value (equal inputs => equal value).
	// This over-approximates behaviour, so "holds" verdicts stay sound for properties that do not depend on CRC values;
	// a job that reports a violation under the abstraction is re-run with the exact CRC before anything is reported.
	AbstractCRC bool
	Tag         string
}

func (j Job) Key() string {
	ks := make([]string, 0, len(j.Params))
	for k := range j.Params {
		ks = append(ks, k)
	}
	sort.Strings(ks)
	s := j.Harness
	for _, k := range ks {
		s += fmt.Sprintf(" %s=%d", k, j.Params[k])
	}
	return s
}

type Tape struct {
	Harness string         `json:"harness"`
	Params  map[string]int `json:"params"`
	Values  []uint64       `json:"values"`
	Known   []string       `json:"known"`
	Names   []string       `json:"names,omitempty"`
	Expect  []string       `json:"expect,omitempty"` // engine's predicted event log
	Kind    string         `json:"kind,omitempty"`   // violation | known | validation
	VKind   string         `json:"vkind,omitempty"`  // assert | panic (for violations)
	Label   string         `json:"label,omitempty"`
	Where   string         `json:"where,omitempty"`
	// MapOrder: the path depends on the iteration order of a Go map with several entries (the executor explores
	// every order; natively the order is random, so the replay is repeated until it is hit)
	MapOrder bool `json:"map_order,omitempty"`
}

type ViolationRec struct {
	Job   string
	Kind  string
	Label string
	Where string
	Tape  Tape
}

type KnownRec struct {
	Job  string
	ID   string
	Tape Tape
}

type JobResult struct {
	Job          Job
	Paths        int
	PathsByEnd   map[string]int
	Steps        int64
	Covers       map[string]int
	Asserts      map[string]int // label -> times proved (solver or trivially)
	Obligations  int            // solver-discharged assertion queries
	Trivial      int            // assertions folded to true by the term layer
	Violations   []ViolationRec
	Known        []KnownRec
	Inconclusive []string
	Funcs        map[string]int
	Solver       smt.Stats
	Wall         time.Duration
	Samples      []Tape // sampled feasible paths with a model, for translator validation
	Recovered    int
	RefineNotes  []string
	NeedExact    bool // a violation under the CRC abstraction could not be turned into a model with real CRC values
	Refined      bool // re-run with exact CRC after the abstraction reported a violation
	AbstractCRC  int  // CRC16 calls replaced by an uninterpreted value
	MaxTerms     int
}

type RunOpts struct {
	TimeoutMS   int
	OpenKnown   map[string]bool
	Seed        int64
	SampleEvery int           // sample every n-th completed path for native validation (0 = none)
	JobBudget   time.Duration // wall-clock budget per job (0 = none); exceeding it ends the job as inconclusive
	Cross       int           // cross-check every n-th query
	Log         func(string)
}

// RunJob explores all paths of one harness instance.
func (e *Engine) RunJob(job Job, sol *smt.Solver, opts RunOpts) *JobResult {
	res := e.runJob(job, sol, opts)
	// (when a refined, replayable violation exists already, the exact re-run would add nothing)
	if job.AbstractCRC && res.NeedExact && len(res.Violations) == 0 {
		exact := job
		exact.AbstractCRC = false
		r2 := e.runJob(exact, sol, opts)
		r2.Wall += res.Wall
		r2.Refined = true
		r2.RefineNotes = res.RefineNotes
		return r2
	}
	return res
}

func (e *Engine) runJob(job Job, sol *smt.Solver, opts RunOpts) *JobResult {
	t0 := time.Now()
	res := &JobResult{Job: job, PathsByEnd: map[string]int{}, Covers: map[string]int{}, Asserts: map[string]int{}, Funcs: map[string]int{}}
	fn := e.HarnessFunc(job.Harness)
	if fn == nil {
		res.Inconclusive = append(res.Inconclusive, "harness not found: "+job.Harness)
		return res
	}
	if job.Unwind == 0 {
		job.Unwind = 20000
	}
	if job.MaxStep == 0 {
		job.MaxStep = 20_000_000
	}
	if job.MaxPath == 0 {
		job.MaxPath = 200000
	}
	rng := rand.New(rand.NewSource(opts.Seed ^ int64(len(job.Key()))*7919))
	before := sol.St
	work := []Work{{}}
	seenViol := map[string]int{}
	seenKnown := map[string]bool{}
	for len(work) > 0 {
		item := work[len(work)-1]
		work = work[:len(work)-1]
		prefix := item.Prefix
		if opts.JobBudget > 0 && time.Since(t0) > opts.JobBudget {
			res.Inconclusive = append(res.Inconclusive, fmt.Sprintf("job time budget %v exhausted after %d paths (%d prefixes unexplored)", opts.JobBudget, res.Paths, len(work)+1))
			break
		}
		if res.Paths >= job.MaxPath {
			res.Inconclusive = append(res.Inconclusive, fmt.Sprintf("path budget %d exhausted", job.MaxPath))
			break
		}
		x := e.newExec(sol, job, prefix, opts)
		x.startModel = item.Model
		if len(prefix) == 0 {
			x.model = map[string]uint64{} // empty path condition: any assignment (all zeros) satisfies it
		}
		end := x.runHarness(fn)
		res.Paths++
		res.PathsByEnd[end.Status]++
		res.Steps += x.steps
		res.Obligations += x.obligations
		res.Trivial += x.trivAsserts
		res.Recovered += len(x.recovered)
		res.AbstractCRC += x.crcAbstracted
		if n := x.ctx.NumTerms(); n > res.MaxTerms {
			res.MaxTerms = n
		}
		for k, v := range x.funcs {
			res.Funcs[k] += v
		}
		for _, ev := range x.events {
			switch ev.Kind {
			case "cover":
				res.Covers[ev.Label]++
			case "assert":
				if ev.OK {
					res.Asserts[ev.Label]++
				}
			}
		}
		switch end.Status {
		case "unsupported", "unwind", "budget":
			res.Inconclusive = append(res.Inconclusive, end.Status+": "+end.Detail)
		case "internal":
			res.Inconclusive = append(res.Inconclusive, "engine error: "+end.Detail)
		}
		res.Inconclusive = append(res.Inconclusive, x.inconcl...)
		if x.needExact {
			res.NeedExact = true
			res.RefineNotes = append(res.RefineNotes, x.refineFail...)
		}
		for _, v := range x.viol {
			key := v.Kind + "|" + v.Label + "|" + v.Where
			seenViol[key]++
			if seenViol[key] > 2 {
				continue
			}
			res.Violations = append(res.Violations, ViolationRec{Job: job.Key(), Kind: v.Kind, Label: v.Label, Where: v.Where,
				Tape: x.makeTape(job, v.Model, v.Events, "violation", v.Label, v.Where)})
			res.Violations[len(res.Violations)-1].Tape.VKind = v.Kind
		}
		for _, k := range x.known {
			if seenKnown[k.ID] || k.Model == nil {
				continue
			}
			seenKnown[k.ID] = true
			res.Known = append(res.Known, KnownRec{Job: job.Key(), ID: k.ID, Tape: x.makeTape(job, k.Model, x.events, "known", k.ID, "")})
		}
		if end.Status == "ok" && opts.SampleEvery > 0 && len(x.known) == 0 && len(x.viol) == 0 && (len(res.Samples) == 0 || rng.Intn(opts.SampleEvery) == 0) && len(res.Samples) < 4 {
			if r, m := x.check(nil, x.ctx.Vars); r == smt.Sat {
				ne := x.needExact
				m = x.refineCRC(nil, m) // abstract CRC values are replaced by real ones before the native run
				x.needExact = ne
				if m != nil {
					res.Samples = append(res.Samples, x.makeTape(job, m, x.events, "validation", "", ""))
				}
			}
		}
		work = append(work, x.alts...)
	}
	after := sol.St
	res.Solver = smt.Stats{Sat: after.Sat - before.Sat, Unsat: after.Unsat - before.Unsat, Unknown: after.Unknown - before.Unknown,
		Errors: after.Errors - before.Errors, Time: after.Time - before.Time, CrossQueries: after.CrossQueries - before.CrossQueries,
		CrossDisagree: after.CrossDisagree - before.CrossDisagree, CrossNoVerdict: after.CrossNoVerdict - before.CrossNoVerdict, MaxQuery: after.MaxQuery}
	if res.Solver.CrossDisagree > 0 {
		res.Inconclusive = append(res.Inconclusive, fmt.Sprintf("solver cross-check disagreement: %v", after.CrossDetail))
	}
	res.Wall = time.Since(t0)
	return res
}

func (e *Engine) newExec(sol *smt.Solver, job Job, prefix []Decision, opts RunOpts) *Exec {
	sol.Reset()
	x := &Exec{eng: e, ctx: term.NewCtx(), sol: sol, prefix: prefix, params: job.Params, openKnown: opts.OpenKnown,
		globals: map[*ssa.Global]*Cell{}, funcs: map[string]int{}, side: map[*Cell]interface{}{}, unwind: job.Unwind, maxStep: job.MaxStep,
		mutexHeld: map[*Cell]int{}, initDone: map[*ssa.Package]bool{}, opaque: map[string]Value{}, abstractCRC: job.AbstractCRC}
	return x
}

// runHarness executes the harness function and classifies how the path ended.
func (x *Exec) runHarness(fn *ssa.Function) (end pathEnd) {
	defer func() {
		r := recover()
		if r == nil {
			return
		}
		switch p := r.(type) {
		case pathEnd:
			end = p
		case *goPanic:
			// a Go panic escaped the harness: a violation of "never panics" with a model of the path
			res, m := x.check(nil, x.ctx.Vars)
			if res == smt.Sat {
				if m == nil {
					m = map[string]uint64{} // a path without symbolic inputs
				}
				m = x.refineCRC(nil, m)
			}
			if res == smt.Sat && m != nil {
				x.viol = append(x.viol, Violation{Kind: "panic", Label: p.Msg, Model: m, Where: p.Msg, Events: append([]Event(nil), x.events...)})
			} else if res == smt.Sat {
				// only spurious (CRC-inconsistent) witnesses found under the abstraction
			} else {
				x.inconcl = append(x.inconcl, "panic path without model: "+p.Msg)
			}
			end = pathEnd{"panic", p.Msg}
		default:
			end = pathEnd{"internal", fmt.Sprintf("%v\n%s", r, debug.Stack())}
		}
	}()
	x.ensureInit(fn.Pkg)
	x.call(fn, nil, nil)
	return pathEnd{"ok", ""}
}

func (x *Exec) makeTape(job Job, model map[string]uint64, events []Event, kind, label, where string) Tape {
	t := Tape{Harness: job.Harness, Params: job.Params, Kind: kind, Label: label, Where: where, MapOrder: x.mapOrderChoices > 0}
	for id, open := range x.openKnown {
		if open {
			t.Known = append(t.Known, id)
		}
	}
	sort.Strings(t.Known)
	for _, e := range x.tape {
		var v uint64
		if e.T.IsConst() {
			v = e.T.Val
		} else {
			v = model[e.T.Name]
		}
		if e.Kind == "int" {
			// stored as two's complement 64-bit
		}
		t.Values = append(t.Values, v)
		t.Names = append(t.Names, e.Name)
	}
	for _, ev := range events {
		switch ev.Kind {
		case "assert":
			if ev.OK {
				t.Expect = append(t.Expect, "assert:"+ev.Label+":ok")
			} else {
				t.Expect = append(t.Expect, "assert:"+ev.Label+":FAIL")
			}
		case "cover":
			t.Expect = append(t.Expect, "cover:"+ev.Label)
		case "known":
			t.Expect = append(t.Expect, "known:"+ev.Label)
		}
	}
	return t
}

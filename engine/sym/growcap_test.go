package sym

import (
	"go/types"
	"testing"
)

// goGrowCap must agree with what the running toolchain's append really does (the values the native replay sees).
func TestGoGrowCapMatchesRuntime(t *testing.T) {
	type g struct {
		s  string
		u  uint8
		b  bool
		sl []int
	}
	str := types.Typ[types.String]
	gT := types.NewStruct([]*types.Var{
		types.NewVar(0, nil, "s", str), types.NewVar(0, nil, "u", types.Typ[types.Uint8]),
		types.NewVar(0, nil, "b", types.Typ[types.Bool]), types.NewVar(0, nil, "sl", types.NewSlice(types.Typ[types.Int]))}, nil)
	var a []byte
	var b []uint16
	var c []g
	var d []string
	var e []uint64
	for i := 0; i < 5000; i++ {
		oa, ob, oc, od, oe := cap(a), cap(b), cap(c), cap(d), cap(e)
		a = append(a, 1)
		b = append(b, 1)
		c = append(c, g{})
		d = append(d, "")
		e = append(e, 1)
		check := func(name string, old, now int, et types.Type) {
			if old < i+1 { // grew
				if w := goGrowCap(i+1, old, et); w != now {
					t.Fatalf("%s: len %d oldcap %d: runtime cap %d, model %d", name, i+1, old, now, w)
				}
			}
		}
		check("byte", oa, cap(a), types.Typ[types.Uint8])
		check("uint16", ob, cap(b), types.Typ[types.Uint16])
		check("struct", oc, cap(c), gT)
		check("string", od, cap(d), str)
		check("uint64", oe, cap(e), types.Typ[types.Uint64])
	}
	for _, k := range []int{1, 2, 3, 5, 7, 9, 13, 33, 100, 250, 255, 256, 257, 260, 300, 1000, 2000, 5000, 40000} {
		for _, o := range []int{0, 1, 3, 8, 100, 256, 260} {
			base := make([]byte, o, o)
			got := cap(append(base, make([]byte, k)...))
			if w := goGrowCap(o+k, o, types.Typ[types.Uint8]); w != got {
				t.Fatalf("bytes: %d+%d: runtime cap %d, model %d", o, k, got, w)
			}
			base2 := make([]uint16, o, o)
			got = cap(append(base2, make([]uint16, k)...))
			if w := goGrowCap(o+k, o, types.Typ[types.Uint16]); w != got {
				t.Fatalf("uint16: %d+%d: runtime cap %d, model %d", o, k, got, w)
			}
		}
	}
}

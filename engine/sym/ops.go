package sym

import (
	"go/token"
	"go/types"
	"unicode/utf8"

	"golang.org/x/tools/go/ssa"

	"verif/engine/term"
)

func (x *Exec) exec(fr *frame, ins ssa.Instruction) {
	switch ins := ins.(type) {
	case *ssa.DebugRef:
	case *ssa.Alloc:
		c := x.newCell(ins.Type().(*types.Pointer).Elem())
		c.Name = ins.Comment
		fr.regs[ins] = Ptr{C: c}
	case *ssa.BinOp:
		fr.regs[ins] = x.binop(ins.Op, x.get(fr, ins.X), x.get(fr, ins.Y), ins.X.Type(), ins.Y.Type())
	case *ssa.UnOp:
		fr.regs[ins] = x.unop(fr, ins)
	case *ssa.Call:
		fr.regs[ins] = x.doCall(fr, &ins.Call, ins)
	case *ssa.ChangeInterface:
		fr.regs[ins] = x.get(fr, ins.X)
	case *ssa.ChangeType:
		fr.regs[ins] = x.get(fr, ins.X)
	case *ssa.Convert:
		fr.regs[ins] = x.convert(x.get(fr, ins.X), ins.X.Type(), ins.Type())
	case *ssa.MakeInterface:
		fr.regs[ins] = Iface{T: ins.X.Type(), V: x.get(fr, ins.X)}
	case *ssa.TypeAssert:
		fr.regs[ins] = x.typeAssert(x.get(fr, ins.X), ins)
	case *ssa.MakeClosure:
		env := make([]Value, len(ins.Bindings))
		for i, b := range ins.Bindings {
			env[i] = x.get(fr, b)
		}
		fr.regs[ins] = &Closure{Fn: ins.Fn.(*ssa.Function), Env: env}
	case *ssa.MakeSlice:
		et := ins.Type().Underlying().(*types.Slice).Elem()
		n := x.cint(x.toInt64(x.get(fr, ins.Len).(*term.Term), ins.Len.Type()), "make len")
		cp := x.cint(x.toInt64(x.get(fr, ins.Cap).(*term.Term), ins.Cap.Type()), "make cap")
		if n < 0 || cp < n {
			x.goPanic("makeslice: len out of range", nil)
		}
		if cp > x.eng.MaxAlloc {
			x.unsupported("make of %d elements exceeds engine cap", cp)
		}
		arr := x.newArrayCell(et, cp)
		fr.regs[ins] = Slice{Arr: arr, Off: x.i64(0), Len: x.i64(n), Cap: x.i64(cp)}
	case *ssa.MakeMap:
		mt := ins.Type().Underlying().(*types.Map)
		fr.regs[ins] = &MapV{KT: mt.Key(), VT: mt.Elem()}
	case *ssa.MakeChan:
		fr.regs[ins] = &ChanV{Kind: "generic", Cap: x.cint(x.toInt64(x.get(fr, ins.Size).(*term.Term), ins.Size.Type()), "channel buffer size")}
	case *ssa.Slice:
		fr.regs[ins] = x.sliceOp(fr, ins)
	case *ssa.FieldAddr:
		p := x.get(fr, ins.X).(Ptr)
		if p.C == nil {
			x.goPanic("nil pointer dereference (field address)", nil)
		}
		fr.regs[ins] = Ptr{C: p.C.Kids[ins.Field]}
	case *ssa.Field:
		s := x.get(fr, ins.X).(StructV)
		fr.regs[ins] = s.F[ins.Field]
	case *ssa.IndexAddr:
		fr.regs[ins] = x.indexAddr(fr, ins)
	case *ssa.Index:
		fr.regs[ins] = x.index(fr, ins)
	case *ssa.Lookup:
		fr.regs[ins] = x.lookup(fr, ins)
	case *ssa.MapUpdate:
		m := x.get(fr, ins.Map).(*MapV)
		if m == nil {
			x.goPanic("assignment to entry in nil map", nil)
		}
		x.mapSet(m, x.get(fr, ins.Key), x.get(fr, ins.Value))
	case *ssa.Range:
		fr.regs[ins] = x.rangeInit(x.get(fr, ins.X))
	case *ssa.Next:
		fr.regs[ins] = x.rangeNext(fr, ins)
	case *ssa.Extract:
		fr.regs[ins] = x.get(fr, ins.Tuple).(Tuple)[ins.Index]
	case *ssa.Store:
		ptr := x.get(fr, ins.Addr).(Ptr)
		x.racePtr(ptr, true)
		x.store(ptr, x.get(fr, ins.Val))
	case *ssa.Defer:
		fn, args := x.prepareCall(fr, &ins.Call)
		fr.defers = append(fr.defers, deferred{fn: fn, args: args, call: &ins.Call})
	case *ssa.RunDefers:
		x.runDefers(fr)
		if p := fr.panicking; p != nil {
			// a deferred call panicked during a normal return: the panic propagates (remaining defers run in runFrame)
			fr.panicking = nil
			panic(p)
		}
	case *ssa.Go:
		// sequentialised: the goroutine body runs to completion at the spawn point; if its first blocking action is
		// a Lock of a mutex that is held right now, it is parked and run when that mutex is released
		fn, args := x.prepareCall(fr, &ins.Call)
		x.runGoroutine(parkedGo{fn: fn, args: args, call: &ins.Call})
	case *ssa.Select:
		fr.regs[ins] = x.selectOp(fr, ins)
	case *ssa.Send:
		ch := x.get(fr, ins.Chan).(*ChanV)
		if ch == nil {
			panic(pathEnd{"assume", "send on nil channel blocks forever"})
		}
		if ch.Kind == "generic" && ch.Cap >= 0 && len(ch.Buf) >= ch.Cap {
			// sequentialised goroutines: nobody can take a value out while this goroutine waits
			x.goPanic("DEADLOCK: send on a channel whose buffer is full (no other goroutine runs in the sequential model)", nil)
		}
		x.raceAcquire(recvSide{ch}) // the k-th receive happens before the (k+cap)-th send completes
		x.raceRelease(ch, true)
		ch.Buf = append(ch.Buf, x.get(fr, ins.X))
	default:
		x.unsupported("SSA instruction %T", ins)
	}
}

// ---------- integer / bool / string / pointer binary operators ----------

func (x *Exec) binop(op token.Token, a, b Value, ta, tb types.Type) Value {
	c := x.ctx
	switch av := a.(type) {
	case *term.Term:
		bv := b.(*term.Term)
		if isBool(ta) {
			switch op {
			case token.EQL:
				return c.Eq(av, bv)
			case token.NEQ:
				return c.Not(c.Eq(av, bv))
			case token.AND, token.LAND:
				return c.And(av, bv)
			case token.OR, token.LOR:
				return c.Or(av, bv)
			}
			x.unsupported("bool binop %v", op)
		}
		if isFloat64(ta) {
			switch op {
			case token.QUO:
				return c.FPDiv(av, bv)
			case token.MUL:
				return c.FPMul(av, bv)
			case token.ADD:
				return c.FPAdd(av, bv)
			case token.SUB:
				return c.FPSub(av, bv)
			case token.LSS:
				return c.FPLt(av, bv)
			case token.LEQ:
				return c.FPLe(av, bv)
			case token.GTR:
				return c.FPLt(bv, av)
			case token.GEQ:
				return c.FPLe(bv, av)
			case token.EQL:
				return c.Eq(av, bv)
			case token.NEQ:
				return c.Not(c.Eq(av, bv))
			}
			x.unsupported("float64 binop %v", op)
		}
		if isFloat32(ta) {
			x.unsupported("float32 arithmetic %v", op)
		}
		w, signed, ok := typeWidth(ta)
		if !ok {
			x.unsupported("binop on type %v", ta)
		}
		switch op {
		case token.ADD:
			return c.Add(av, bv)
		case token.SUB:
			return c.Sub(av, bv)
		case token.MUL:
			return c.Mul(av, bv)
		case token.QUO, token.REM:
			x.panicIf(c.Eq(bv, c.Const(w, 0)), "integer divide by zero")
			if signed {
				if op == token.QUO {
					return c.SDiv(av, bv)
				}
				return c.SRem(av, bv)
			}
			if op == token.QUO {
				return c.UDiv(av, bv)
			}
			return c.URem(av, bv)
		case token.AND:
			return c.BAnd(av, bv)
		case token.OR:
			return c.BOr(av, bv)
		case token.XOR:
			return c.BXor(av, bv)
		case token.AND_NOT:
			return c.BAnd(av, c.BNot(bv))
		case token.SHL, token.SHR:
			sw, ssigned, _ := typeWidth(tb)
			if ssigned {
				x.panicIf(c.SLt(bv, c.Const(sw, 0)), "negative shift amount")
			}
			// bring the amount to width w, saturating
			var amt *term.Term
			if sw <= w {
				amt = c.ZExt(bv, w)
			} else {
				big := c.ULe(c.Const(sw, uint64(w)), bv)
				amt = c.Ite(big, c.Const(w, uint64(w)), c.Extract(bv, w-1, 0))
			}
			if op == token.SHL {
				return c.Shl(av, amt)
			}
			if signed {
				return c.AShr(av, amt)
			}
			return c.LShr(av, amt)
		case token.EQL:
			return c.Eq(av, bv)
		case token.NEQ:
			return c.Not(c.Eq(av, bv))
		case token.LSS:
			if signed {
				return c.SLt(av, bv)
			}
			return c.ULt(av, bv)
		case token.LEQ:
			if signed {
				return c.SLe(av, bv)
			}
			return c.ULe(av, bv)
		case token.GTR:
			if signed {
				return c.SLt(bv, av)
			}
			return c.ULt(bv, av)
		case token.GEQ:
			if signed {
				return c.SLe(bv, av)
			}
			return c.ULe(bv, av)
		}
		x.unsupported("integer binop %v", op)
	case Str:
		bs := b.(Str)
		switch op {
		case token.ADD:
			return x.strConcat(av, bs)
		case token.EQL:
			return x.strEq(av, bs)
		case token.NEQ:
			return c.Not(x.strEq(av, bs))
		case token.LSS, token.GTR, token.LEQ, token.GEQ:
			if !av.Sym && !bs.Sym {
				switch op {
				case token.LSS:
					return c.BoolC(av.S < bs.S)
				case token.GTR:
					return c.BoolC(av.S > bs.S)
				case token.LEQ:
					return c.BoolC(av.S <= bs.S)
				default:
					return c.BoolC(av.S >= bs.S)
				}
			}
		}
		x.unsupported("string binop %v on symbolic strings", op)
	default:
		switch op {
		case token.EQL:
			return x.valEq(a, b)
		case token.NEQ:
			return c.Not(x.valEq(a, b))
		}
		x.unsupported("binop %v on %T", op, a)
	}
	return nil
}

// valEq is Go's == on comparable values.
func (x *Exec) valEq(a, b Value) *term.Term {
	c := x.ctx
	switch av := a.(type) {
	case *term.Term:
		return c.Eq(av, b.(*term.Term))
	case Str:
		return x.strEq(av, b.(Str))
	case Ptr:
		bp, ok := b.(Ptr)
		if !ok {
			return c.False()
		}
		if av.C != nil || bp.C != nil || (av.Arr == nil && bp.Arr == nil) {
			return c.BoolC(av.C == bp.C && av.Arr == bp.Arr)
		}
		if av.Arr != bp.Arr {
			return c.False()
		}
		return c.Eq(av.Idx, bp.Idx)
	case Iface:
		bi, ok := b.(Iface)
		if !ok {
			return c.False()
		}
		if av.T == nil || bi.T == nil {
			return c.BoolC(av.T == nil && bi.T == nil)
		}
		if !types.Identical(av.T, bi.T) {
			return c.False()
		}
		return x.valEq(av.V, bi.V)
	case StructV:
		bs := b.(StructV)
		r := c.True()
		for i := range av.F {
			r = c.And(r, x.valEq(av.F[i], bs.F[i]))
		}
		return r
	case ArrayV:
		bs := b.(ArrayV)
		r := c.True()
		for i := range av.E {
			r = c.And(r, x.valEq(av.E[i], bs.E[i]))
		}
		return r
	case *Closure:
		bc, _ := b.(*Closure)
		return c.BoolC(av == nil && bc == nil)
	case *MapV:
		bm, _ := b.(*MapV)
		return c.BoolC(av == bm)
	case *ChanV:
		bm, _ := b.(*ChanV)
		return c.BoolC(av == bm)
	case Slice:
		// only comparison with nil is legal
		bs := b.(Slice)
		return c.BoolC(av.Arr == nil && bs.Arr == nil)
	}
	x.unsupported("== on %T", a)
	return nil
}

// ---------- strings ----------

func (x *Exec) strRunes(s Str) []*term.Term {
	if s.Sym {
		return s.R
	}
	var r []*term.Term
	for i := 0; i < len(s.S); {
		ru, n := utf8.DecodeRuneInString(s.S[i:])
		if ru == utf8.RuneError && n == 1 {
			// raw byte that is not valid UTF-8: keep it distinguishable
			ru = rune(0x10000000 + int(s.S[i]))
		}
		r = append(r, x.ctx.Const(32, uint64(ru)))
		i += n
	}
	return r
}

func (x *Exec) strConcat(a, b Str) Str {
	if !a.Sym && !b.Sym {
		return Str{S: a.S + b.S}
	}
	return Str{Sym: true, R: append(append([]*term.Term(nil), x.strRunes(a)...), x.strRunes(b)...)}
}

func (x *Exec) strEq(a, b Str) *term.Term {
	if !a.Sym && !b.Sym {
		return x.ctx.BoolC(a.S == b.S)
	}
	ra, rb := x.strRunes(a), x.strRunes(b)
	if len(ra) != len(rb) {
		return x.ctx.False()
	}
	r := x.ctx.True()
	for i := range ra {
		r = x.ctx.And(r, x.ctx.Eq(ra[i], rb[i]))
	}
	return r
}

func (x *Exec) strLen(s Str) *term.Term {
	if !s.Sym {
		return x.i64(len(s.S))
	}
	c := x.ctx
	n := c.Const(64, 0)
	for _, r := range s.R {
		one := c.Ite(c.ULt(r, c.Const(32, 0x80)), c.Const(64, 1),
			c.Ite(c.ULt(r, c.Const(32, 0x800)), c.Const(64, 2),
				c.Ite(c.ULt(r, c.Const(32, 0x10000)), c.Const(64, 3), c.Const(64, 4))))
		n = c.Add(n, one)
	}
	return n
}

// ---------- unary ----------

func (x *Exec) unop(fr *frame, ins *ssa.UnOp) Value {
	c := x.ctx
	v := x.get(fr, ins.X)
	switch ins.Op {
	case token.MUL:
		x.racePtr(v.(Ptr), false)
		return x.load(v.(Ptr))
	case token.NOT:
		return c.Not(v.(*term.Term))
	case token.SUB:
		t := v.(*term.Term)
		if t.S.K == term.KF64 {
			return c.FPSub(c.F64C(0), t)
		}
		return c.Neg(t)
	case token.XOR:
		return c.BNot(v.(*term.Term))
	case token.ARROW:
		return x.recv(v.(*ChanV), ins.CommaOk)
	}
	x.unsupported("unop %v", ins.Op)
	return nil
}

// ---------- conversions ----------

func (x *Exec) convert(v Value, from, to types.Type) Value {
	c := x.ctx
	fw, fsigned, fint := typeWidth(from)
	tw, tsigned, tint := typeWidth(to)
	switch {
	case fint && tint:
		t := v.(*term.Term)
		if tw <= fw {
			return c.Extract(t, tw-1, 0)
		}
		if fsigned {
			return c.SExt(t, tw)
		}
		return c.ZExt(t, tw)
	case fint && isFloat64(to):
		if fsigned {
			return c.FPFromS(v.(*term.Term))
		}
		return c.FPFromU(v.(*term.Term))
	case isFloat64(from) && tint:
		if tsigned {
			return c.FPToS(v.(*term.Term), tw)
		}
		return c.FPToU(v.(*term.Term), tw)
	case isFloat64(from) && isFloat64(to), isFloat32(from) && isFloat32(to):
		return v
	case fint && isString(to):
		// rune -> string
		t := v.(*term.Term)
		if t.IsConst() {
			return Str{S: string(rune(t.Int()))}
		}
		var r *term.Term
		if fw <= 32 {
			if fsigned {
				r = c.SExt(t, 32)
			} else {
				r = c.ZExt(t, 32)
			}
		} else {
			r = c.Extract(t, 31, 0)
		}
		return Str{Sym: true, R: []*term.Term{r}}
	case isString(from) && isString(to):
		return v
	}
	if sl, ok := to.Underlying().(*types.Slice); ok && isString(from) {
		// string -> []byte / []rune
		s := v.(Str)
		if s.Sym {
			x.unsupported("conversion of symbolic string to slice")
		}
		if b, ok := sl.Elem().Underlying().(*types.Basic); ok && b.Kind() == types.Uint8 {
			arr := x.newArrayCell(sl.Elem(), len(s.S))
			for i := 0; i < len(s.S); i++ {
				arr.Kids[i].V = c.Const(8, uint64(s.S[i]))
			}
			n := x.i64(len(s.S))
			return Slice{Arr: arr, Off: x.i64(0), Len: n, Cap: n}
		}
	}
	if _, ok := from.Underlying().(*types.Slice); ok && isString(to) {
		// []byte -> string
		s := v.(Slice)
		n := x.cint(s.Len, "string(bytes) len")
		off := x.cint(s.Off, "string(bytes) off")
		bs := make([]byte, n)
		allConst := true
		var rs []*term.Term
		for i := 0; i < n; i++ {
			e := s.Arr.Kids[off+i].V.(*term.Term)
			if e.IsConst() {
				bs[i] = byte(e.Val)
			} else {
				allConst = false
			}
			rs = append(rs, c.ZExt(e, 32))
		}
		if allConst {
			return Str{S: string(bs)}
		}
		// NB: symbolic bytes >= 0x80 are treated as Latin-1 runes; flagged so claims do not rest on it
		return Str{Sym: true, R: rs}
	}
	if _, ok := to.Underlying().(*types.Pointer); ok {
		return v
	}
	if b, ok := to.Underlying().(*types.Basic); ok && b.Kind() == types.UnsafePointer {
		return v
	}
	x.unsupported("conversion %v -> %v", from, to)
	return nil
}

func (x *Exec) typeAssert(v Value, ins *ssa.TypeAssert) Value {
	i := v.(Iface)
	ok := false
	var res Value
	if _, toIface := ins.AssertedType.Underlying().(*types.Interface); toIface {
		if i.T != nil {
			ok = types.Implements(i.T, ins.AssertedType.Underlying().(*types.Interface))
			if !ok {
				// pointer receiver method sets are handled by Implements on the dynamic type itself
			}
		}
		res = i
		if !ok {
			res = Iface{}
		}
	} else {
		ok = i.T != nil && types.Identical(i.T, ins.AssertedType)
		if ok {
			res = i.V
		} else {
			res = x.zero(ins.AssertedType)
		}
	}
	if ins.CommaOk {
		return Tuple{res, x.ctx.BoolC(ok)}
	}
	if !ok {
		x.goPanic("interface conversion failed", nil)
	}
	return res
}

// ---------- slices, indexing ----------

func (x *Exec) sliceOp(fr *frame, ins *ssa.Slice) Value {
	c := x.ctx
	base := x.get(fr, ins.X)
	var lo, hi, mx *term.Term
	if ins.Low != nil {
		lo = x.toInt64(x.get(fr, ins.Low).(*term.Term), ins.Low.Type())
	}
	if ins.High != nil {
		hi = x.toInt64(x.get(fr, ins.High).(*term.Term), ins.High.Type())
	}
	if ins.Max != nil {
		mx = x.toInt64(x.get(fr, ins.Max).(*term.Term), ins.Max.Type())
	}
	switch b := base.(type) {
	case Str:
		if b.Sym {
			x.unsupported("slicing symbolic string")
		}
		l, h := 0, len(b.S)
		if lo != nil {
			l = x.cint(lo, "string slice lo")
		}
		if hi != nil {
			h = x.cint(hi, "string slice hi")
		}
		if l < 0 || h > len(b.S) || l > h {
			x.goPanic("slice bounds out of range (string)", nil)
		}
		return Str{S: b.S[l:h]}
	case Ptr: // *array
		if b.C == nil {
			x.goPanic("nil pointer dereference (slice of *array)", nil)
		}
		n := x.i64(len(b.C.Kids))
		return x.reslice(b.C, x.i64(0), n, n, lo, hi, mx)
	case Slice:
		return x.reslice(b.Arr, b.Off, b.Len, b.Cap, lo, hi, mx)
	}
	_ = c
	x.unsupported("slice of %T", base)
	return nil
}

func (x *Exec) toInt64(t *term.Term, ty types.Type) *term.Term {
	w, signed, _ := typeWidth(ty)
	if w == 64 {
		return t
	}
	if signed {
		return x.ctx.SExt(t, 64)
	}
	return x.ctx.ZExt(t, 64)
}

func (x *Exec) reslice(arr *Cell, off, ln, cp, lo, hi, mx *term.Term) Value {
	c := x.ctx
	if lo == nil {
		lo = x.i64(0)
	}
	if hi == nil {
		hi = ln
	}
	limit := cp
	if mx != nil {
		x.panicIf(c.Or(c.SLt(mx, x.i64(0)), c.SLt(cp, mx)), "slice bounds out of range (max > cap)")
		limit = mx
	}
	// 0 <= lo <= hi <= limit
	bad := c.Or(c.SLt(lo, x.i64(0)), c.Or(c.SLt(hi, lo), c.SLt(limit, hi)))
	x.panicIf(bad, "slice bounds out of range")
	return Slice{Arr: arr, Off: c.Add(off, lo), Len: c.Sub(hi, lo), Cap: c.Sub(limit, lo)}
}

func (x *Exec) indexAddr(fr *frame, ins *ssa.IndexAddr) Value {
	c := x.ctx
	base := x.get(fr, ins.X)
	idx := x.toInt64(x.get(fr, ins.Index).(*term.Term), ins.Index.Type())
	var arr *Cell
	var off, ln *term.Term
	switch b := base.(type) {
	case Slice:
		arr, off, ln = b.Arr, b.Off, b.Len
	case Ptr:
		if b.C == nil {
			x.goPanic("nil pointer dereference (index of *array)", nil)
		}
		arr, off, ln = b.C, x.i64(0), x.i64(len(b.C.Kids))
	default:
		x.unsupported("IndexAddr on %T", base)
	}
	x.panicIf(c.Or(c.SLt(idx, x.i64(0)), c.SLe(ln, idx)), "index out of range")
	abs := c.Add(off, idx)
	if abs.IsConst() {
		return Ptr{C: arr.Kids[abs.Int()]}
	}
	if len(arr.Kids) > 0 && arr.Kids[0].Kids != nil {
		// aggregate elements: concretise
		i := x.cint(abs, "index into aggregate slice")
		return Ptr{C: arr.Kids[i]}
	}
	if _, ok := arr.Kids[0].V.(*term.Term); !ok {
		i := x.cint(abs, "index into non-scalar slice")
		return Ptr{C: arr.Kids[i]}
	}
	return Ptr{Arr: arr, Idx: abs}
}

func (x *Exec) index(fr *frame, ins *ssa.Index) Value {
	c := x.ctx
	base := x.get(fr, ins.X)
	idx := x.toInt64(x.get(fr, ins.Index).(*term.Term), ins.Index.Type())
	switch b := base.(type) {
	case ArrayV:
		x.panicIf(c.Or(c.SLt(idx, x.i64(0)), c.SLe(x.i64(len(b.E)), idx)), "index out of range")
		if idx.IsConst() {
			return b.E[idx.Int()]
		}
		var acc *term.Term
		for i := len(b.E) - 1; i >= 0; i-- {
			ev, ok := b.E[i].(*term.Term)
			if !ok {
				return b.E[x.cint(idx, "array value index")]
			}
			if acc == nil {
				acc = ev
			} else {
				acc = c.Ite(c.Eq(idx, x.i64(i)), ev, acc)
			}
		}
		return acc
	case Str:
		return x.strIndex(b, idx)
	}
	x.unsupported("Index on %T", base)
	return nil
}

func (x *Exec) strIndex(s Str, idx *term.Term) Value {
	if s.Sym {
		x.unsupported("indexing symbolic string")
	}
	i := x.cint(idx, "string index")
	if i < 0 || i >= len(s.S) {
		x.goPanic("index out of range (string)", nil)
	}
	return x.ctx.Const(8, uint64(s.S[i]))
}

func (x *Exec) lookup(fr *frame, ins *ssa.Lookup) Value {
	base := x.get(fr, ins.X)
	if s, ok := base.(Str); ok {
		return x.strIndex(s, x.toInt64(x.get(fr, ins.Index).(*term.Term), ins.Index.Type()))
	}
	m := base.(*MapV)
	key := x.get(fr, ins.Index)
	vt := ins.X.Type().Underlying().(*types.Map).Elem()
	v, ok := x.mapGet(m, key)
	if !ok {
		v = x.zero(vt)
	}
	if ins.CommaOk {
		return Tuple{v, x.ctx.BoolC(ok)}
	}
	return v
}

// ---------- maps (association lists; key equality forks) ----------

func (x *Exec) mapFind(m *MapV, key Value) int {
	if m == nil {
		return -1
	}
	for i, k := range m.Keys {
		if x.branch(x.valEq(k, key)) {
			return i
		}
	}
	return -1
}

func (x *Exec) mapGet(m *MapV, key Value) (Value, bool) {
	x.raceMap(m, false)
	i := x.mapFind(m, key)
	if i < 0 {
		return nil, false
	}
	return m.Vals[i], true
}

func (x *Exec) mapSet(m *MapV, key, val Value) {
	x.raceMap(m, true)
	i := x.mapFind(m, key)
	if i >= 0 {
		m.Vals[i] = val
		return
	}
	m.Keys = append(m.Keys, key)
	m.Vals = append(m.Vals, val)
}

type rangeIter struct {
	m     *MapV
	order []int
	pos   int
	s     Str
	keys  []Value // snapshot taken when the loop starts (entries deleted during the loop are skipped)
}

func (x *Exec) rangeInit(v Value) Value {
	switch t := v.(type) {
	case *MapV:
		x.raceMap(t, false)
		it := &rangeIter{m: t}
		n := 0
		if t != nil {
			n = len(t.Keys)
		}
		// iteration order is nondeterministic in Go: fork over permutations (n<=3), else forward/reverse
		perms := x.mapOrders(n)
		choice := 0
		if len(perms) > 1 {
			choice = int(x.concretizeChoice(len(perms), "map iteration order"))
			x.mapOrderChoices++
		}
		it.order = perms[choice]
		if t != nil {
			it.keys = append(it.keys, t.Keys...)
		}
		return it
	case Str:
		if t.Sym {
			x.unsupported("range over symbolic string")
		}
		return &rangeIter{s: t}
	}
	x.unsupported("range over %T", v)
	return nil
}

func (x *Exec) mapOrders(n int) [][]int {
	id := make([]int, n)
	for i := range id {
		id[i] = i
	}
	if n <= 1 {
		return [][]int{id}
	}
	if n > x.eng.MapPermMax {
		rev := make([]int, n)
		for i := range rev {
			rev[i] = n - 1 - i
		}
		return [][]int{id, rev}
	}
	var out [][]int
	var rec func(k int)
	rec = func(k int) {
		if k == n {
			out = append(out, append([]int(nil), id...))
			return
		}
		for i := k; i < n; i++ {
			id[k], id[i] = id[i], id[k]
			rec(k + 1)
			id[k], id[i] = id[i], id[k]
		}
	}
	rec(0)
	return out
}

// concretizeChoice forks over n alternatives without involving the solver.
func (x *Exec) concretizeChoice(n int, what string) int64 {
	if d, ok := x.nextDecision(); ok {
		x.taken = append(x.taken, d)
		x.replayed()
		return d.Val
	}
	for v := 1; v < n; v++ {
		x.schedule(Decision{int64(v), true}, x.model)
	}
	x.taken = append(x.taken, Decision{0, true})
	return 0
}

func (x *Exec) rangeNext(fr *frame, ins *ssa.Next) Value {
	it := x.get(fr, ins.Iter).(*rangeIter)
	c := x.ctx
	if ins.IsString {
		if it.pos >= len(it.s.S) {
			return Tuple{c.False(), x.i64(0), c.Const(32, 0)}
		}
		r, n := utf8.DecodeRuneInString(it.s.S[it.pos:])
		t := Tuple{c.True(), x.i64(it.pos), c.Const(32, uint64(r))}
		it.pos += n
		return t
	}
	if it.pos >= len(it.order) {
		mt := ins.Iter.(*ssa.Range).X.Type().Underlying().(*types.Map)
		return Tuple{c.False(), x.zero(mt.Key()), x.zero(mt.Elem())}
	}
	for it.pos < len(it.order) {
		if len(it.m.Keys) == len(it.keys) {
			// map not modified since the loop started
			i := it.order[it.pos]
			it.pos++
			return Tuple{c.True(), it.m.Keys[i], it.m.Vals[i]}
		}
		k := it.keys[it.order[it.pos]]
		it.pos++
		// still present? (only identity-comparable keys may be deleted during iteration in the code we run)
		for j, mk := range it.m.Keys {
			if eq := x.valEq(mk, k); eq.IsTrue() {
				return Tuple{c.True(), mk, it.m.Vals[j]}
			} else if !eq.IsConst() {
				x.unsupported("range over a map with symbolic keys that is modified during the loop")
			}
		}
	}
	mt := ins.Iter.(*ssa.Range).X.Type().Underlying().(*types.Map)
	return Tuple{c.False(), x.zero(mt.Key()), x.zero(mt.Elem())}
}

package sym

import (
	"fmt"
	"go/constant"
	"go/token"
	"go/types"
	"math"
	"strings"

	"golang.org/x/tools/go/ssa"

	"verif/engine/smt"
	"verif/engine/term"
)

// ---------- path exploration plumbing ----------

type Decision struct {
	Val    int64
	Forced bool
}

// Work is a path prefix still to be explored, with a model known to satisfy it.
type Work struct {
	Prefix []Decision
	Model  map[string]uint64
}

type TapeEntry struct {
	Kind string // u8 u16 u32 u64 int bool
	Name string
	T    *term.Term
}

type Event struct {
	Kind  string // assert cover known trace
	Label string
	OK    bool
}

// control-flow exceptions inside the interpreter
type goPanic struct {
	Msg string
	Val Value
}
type pathEnd struct {
	Status string // "assume", "unwind", "unsupported", "exit", "budget"
	Detail string
}

type Violation struct {
	Kind   string // "assert" or "panic"
	Label  string
	Model  map[string]uint64
	Events []Event
	Where  string
}

type KnownHit struct {
	ID    string
	Model map[string]uint64
}

type Exec struct {
	eng *Engine
	ctx *term.Ctx
	sol *smt.Solver

	prefix []Decision
	taken  []Decision
	alts   []Work

	model      map[string]uint64 // concolic model: satisfies the current path condition (nil = none known)
	startModel map[string]uint64
	modelGen   int
	evalGen    int
	evalMemo   map[int]uint64

	pc        []*term.Term
	tape      []TapeEntry
	events    []Event
	viol      []Violation
	known     []KnownHit
	params    map[string]int
	openKnown map[string]bool

	globals      map[*ssa.Global]*Cell
	guard        *term.Term
	depth        int
	steps        int64
	maxStep      int64
	unwind       int
	funcs        map[string]int // functions entered -> count
	side         map[*Cell]interface{}
	inconcl      []string
	concreteTape []uint64 // when non-nil: concrete replay mode, vnd values come from here
	ctPos        int
	mutexHeld    map[*Cell]int
	curPos       token.Pos
	initDone     map[*ssa.Package]bool
	opaque       map[string]Value
	timeSeq      int

	facts             map[int]bool
	abstractCRC       bool
	crcAbstracted     int
	crcMemo           map[string]*term.Term
	crcUses           []crcUse
	needExact         bool
	refineFail        []string
	recoverFrame      *frame
	recovered         []string
	trivAsserts       int
	obligations       int
	sprintfOpaque     int
	lockEvents        []string
	lastDeadlineDelta *term.Term
	timerChans        []*ChanV
	timerDur          []*term.Term
	timeAdvanced      int
	clockNS           int64
	inGo              int
	parked            map[*Cell][]parkedGo
	mapOrderChoices   int
	gid, gidNext      int                   // current sequentialised goroutine (0 = the harness's own)
	rdHeld            map[*Cell]map[int]int // RWMutex read locks held, per goroutine
	race              *raceState
	fnStack           []*ssa.Function
}

func (x *Exec) unsupported(format string, a ...interface{}) {
	panic(pathEnd{"unsupported", fmt.Sprintf(format, a...) + " at " + x.where()})
}

func (x *Exec) where() string {
	if x.curPos.IsValid() {
		p := x.eng.Fset.Position(x.curPos)
		return fmt.Sprintf("%s:%d", shortPath(p.Filename), p.Line)
	}
	return "?"
}

func shortPath(p string) string {
	if i := strings.Index(p, "/repo/"); i >= 0 {
		return p[i+6:]
	}
	if i := strings.LastIndex(p, "/src/"); i >= 0 {
		return p[i+5:]
	}
	return p
}

func (x *Exec) goPanic(msg string, v Value) {
	panic(&goPanic{Msg: msg + " at " + x.where(), Val: v})
}

// check runs a solver query under the current path condition.
func (x *Exec) check(extra *term.Term, vars []*term.Term) (smt.Result, map[string]uint64) {
	return x.sol.Check(extra, vars)
}

func (x *Exec) assume(c *term.Term) {
	if c.IsTrue() {
		return
	}
	x.pc = append(x.pc, c)
	x.noteFact(c)
	x.sol.Assert(c)
	if x.model != nil {
		if v, ok := x.evalTerm(c); !ok || v != 1 {
			x.setModel(nil)
		}
	}
}

// noteFact records literals known to hold on this path (syntactic lookup before asking the solver).
func (x *Exec) noteFact(c *term.Term) {
	if x.facts == nil {
		x.facts = map[int]bool{}
	}
	x.facts[c.ID] = true
	switch c.Op {
	case term.OpAnd:
		x.noteFact(c.Args[0])
		x.noteFact(c.Args[1])
	case term.OpNot:
		if in := c.Args[0]; in.Op == term.OpOr {
			x.noteFact(x.ctx.Not(in.Args[0]))
			x.noteFact(x.ctx.Not(in.Args[1]))
		}
	}
}

// known returns +1 if c is syntactically implied by the path condition, -1 if its negation is, 0 otherwise.
func (x *Exec) knownFact(c *term.Term) int {
	if x.facts == nil {
		return 0
	}
	if x.facts[c.ID] {
		return 1
	}
	if x.facts[x.ctx.Not(c).ID] {
		return -1
	}
	switch c.Op {
	case term.OpAnd:
		a, b := x.knownFact(c.Args[0]), x.knownFact(c.Args[1])
		if a == 1 && b == 1 {
			return 1
		}
		if a == -1 || b == -1 {
			return -1
		}
	case term.OpOr:
		a, b := x.knownFact(c.Args[0]), x.knownFact(c.Args[1])
		if a == 1 || b == 1 {
			return 1
		}
		if a == -1 && b == -1 {
			return -1
		}
	case term.OpNot:
		return -x.knownFact(c.Args[0])
	}
	return 0
}

// nextDecision returns a recorded decision if we are still replaying the prefix.
func (x *Exec) nextDecision() (Decision, bool) {
	if len(x.taken) < len(x.prefix) {
		d := x.prefix[len(x.taken)]
		return d, true
	}
	return Decision{}, false
}

// replayed is called after a recorded decision was consumed; at the end of the prefix the model that
// was found when the alternative was scheduled becomes the current concolic model.
func (x *Exec) replayed() {
	if len(x.taken) == len(x.prefix) && x.startModel != nil {
		x.model = x.startModel
	}
}

// evalBool evaluates c under the current concolic model (a satisfying assignment of the path condition).
func (x *Exec) evalTerm(c *term.Term) (v uint64, ok bool) {
	if x.model == nil {
		return 0, false
	}
	defer func() {
		if r := recover(); r != nil {
			ok = false // FP sub-term: no concrete evaluation
		}
	}()
	if x.evalMemo == nil || x.evalGen != x.modelGen {
		x.evalMemo = map[int]uint64{}
		x.evalGen = x.modelGen
	}
	return term.Eval(c, x.model, x.evalMemo), true
}

func (x *Exec) setModel(m map[string]uint64) {
	x.model = m
	x.modelGen++
}

func (x *Exec) schedule(d Decision, m map[string]uint64) {
	alt := append(append([]Decision(nil), x.taken...), d)
	x.alts = append(x.alts, Work{Prefix: alt, Model: m})
}

// branch decides a symbolic condition, forking when both sides are feasible.
func (x *Exec) branch(cond *term.Term) bool {
	if cond.IsConst() {
		return cond.Val == 1
	}
	if x.guard != nil {
		x.unsupported("branch inside if-converted region")
	}
	switch x.knownFact(cond) {
	case 1:
		return true
	case -1:
		return false
	}
	if d, ok := x.nextDecision(); ok {
		x.taken = append(x.taken, d)
		if !d.Forced {
			if d.Val == 1 {
				x.assume(cond)
			} else {
				x.assume(x.ctx.Not(cond))
			}
		}
		x.replayed()
		return d.Val == 1
	}
	nc := x.ctx.Not(cond)
	if v, ok := x.evalTerm(cond); ok {
		// the model already witnesses one side; only the other side needs the solver
		side := v == 1
		other := nc
		if !side {
			other = cond
		}
		r, m := x.check(other, x.ctx.Vars)
		bv := int64(0)
		if side {
			bv = 1
		}
		if r == smt.Unsat {
			x.taken = append(x.taken, Decision{bv, true})
			return side
		}
		if r == smt.Unknown {
			x.inconcl = append(x.inconcl, "solver unknown at branch "+x.where())
		}
		x.schedule(Decision{1 - bv, false}, m)
		x.taken = append(x.taken, Decision{bv, false})
		if side {
			x.assume(cond)
		} else {
			x.assume(nc)
		}
		return side
	}
	rt, mt := x.check(cond, x.ctx.Vars)
	if rt == smt.Unsat {
		x.taken = append(x.taken, Decision{0, true})
		return false
	}
	rf, mf := x.check(nc, x.ctx.Vars)
	if rf == smt.Unsat && rt == smt.Sat {
		x.taken = append(x.taken, Decision{1, true})
		x.setModel(mt)
		return true
	}
	if rt == smt.Unknown || rf == smt.Unknown {
		x.inconcl = append(x.inconcl, "solver unknown at branch "+x.where())
	}
	// both feasible (or unknown): schedule the false side, continue with true
	x.schedule(Decision{0, false}, mf)
	x.taken = append(x.taken, Decision{1, false})
	x.setModel(mt)
	x.assume(cond)
	return true
}

// concretize forks over the feasible values of t (signed 64-bit view).
func (x *Exec) concretize(t *term.Term, what string) int64 {
	if t.IsConst() {
		return t.Int()
	}
	if x.guard != nil {
		x.unsupported("concretize inside if-converted region")
	}
	w := t.S.W
	if d, ok := x.nextDecision(); ok {
		x.taken = append(x.taken, d)
		if !d.Forced {
			x.assume(x.ctx.Eq(t, x.ctx.ConstS(w, d.Val)))
		}
		x.replayed()
		return d.Val
	}
	// enumerate feasible values
	var vals []int64
	var models []map[string]uint64
	excl := x.ctx.True()
	if v, ok := x.evalTerm(t); ok {
		vals = append(vals, x.ctx.Const(w, v).Int())
		models = append(models, x.model)
		excl = x.ctx.Not(x.ctx.Eq(t, x.ctx.Const(w, v)))
	}
	pname := fmt.Sprintf("$conc%d", w)
	probe := x.ctx.Var(pname, term.BV(w))
	for len(vals) <= x.eng.ConcretizeCap {
		q := x.ctx.And(excl, x.ctx.Eq(probe, t))
		r, m := x.check(q, x.ctx.Vars)
		if r == smt.Unsat {
			break
		}
		if r == smt.Unknown {
			x.inconcl = append(x.inconcl, "solver unknown while concretizing "+what+" at "+x.where())
			break
		}
		v := m[pname]
		sv := x.ctx.Const(w, v).Int()
		vals = append(vals, sv)
		models = append(models, m)
		excl = x.ctx.And(excl, x.ctx.Not(x.ctx.Eq(t, x.ctx.Const(w, v))))
	}
	if len(vals) == 0 {
		panic(pathEnd{"assume", "no feasible value for " + what})
	}
	if len(vals) > x.eng.ConcretizeCap {
		panic(pathEnd{"unsupported", fmt.Sprintf("more than %d feasible values for %s at %s", x.eng.ConcretizeCap, what, x.where())})
	}
	for i, v := range vals[1:] {
		x.schedule(Decision{v, false}, models[i+1])
	}
	forced := len(vals) == 1
	x.taken = append(x.taken, Decision{vals[0], forced})
	x.setModel(models[0])
	if !forced {
		x.assume(x.ctx.Eq(t, x.ctx.ConstS(w, vals[0])))
	}
	return vals[0]
}

// panicIf forks on a runtime-panic condition.
func (x *Exec) panicIf(cond *term.Term, msg string) {
	if cond.IsFalse() {
		return
	}
	if x.guard != nil {
		// inside an if-converted arm: a feasible panic is reported directly
		q := x.ctx.And(x.guard, cond)
		r, m := x.check(q, x.tapeVars())
		if r == smt.Sat {
			x.viol = append(x.viol, Violation{Kind: "panic", Label: msg, Model: m, Where: x.where(), Events: append([]Event(nil), x.events...)})
		} else if r == smt.Unknown {
			x.inconcl = append(x.inconcl, "solver unknown at guarded panic check "+x.where())
		}
		return
	}
	if x.branch(cond) {
		x.goPanic(msg, nil)
	}
}

func (x *Exec) tapeVars() []*term.Term {
	vs := make([]*term.Term, 0, len(x.tape))
	for _, e := range x.tape {
		if e.T.Op == term.OpVar {
			vs = append(vs, e.T)
		}
	}
	return vs
}

// ---------- frames ----------

type deferred struct {
	fn   Value
	args []Value
	call *ssa.CallCommon
}

// cutSpec makes runBlocks treat one loop header as a cut-point: on first arrival the phis take the given
// (arbitrary, symbolic) values instead of the entry-edge values; on the second arrival execution stops and the
// back-edge values of the phis are reported.
type cutSpec struct {
	header   *ssa.BasicBlock
	override []Value
	arrivals int
}

type cutBack struct{ vals []Value }

// parkedGo is a sequentialised goroutine waiting for a mutex.
type parkedGo struct {
	fn   Value
	args []Value
	call *ssa.CallCommon
	gid  int // race detection: the goroutine's id (0 = not assigned yet)
}

type blockedOnLock struct {
	mu    *Cell
	steps int64
}

// runGoroutine runs a goroutine body to completion, or parks it if it blocks on a held mutex before doing
// anything else (only the call chain down to Lock may have run: bounded by a small step budget, else unsupported).
func (x *Exec) runGoroutine(g parkedGo) {
	x.inGo++
	start := x.steps
	depth, nfn := x.depth, len(x.fnStack)
	fresh := g.gid == 0
	if fresh {
		x.gidNext++
		g.gid = x.gidNext
	}
	savedGid := x.gid
	if x.race != nil {
		x.race.ensure(g.gid)
		if fresh {
			x.race.spawn(g.gid)
		}
		x.race.gid = g.gid
	}
	x.gid = g.gid
	defer func() {
		x.gid = savedGid
		if x.race != nil {
			x.race.gid = savedGid
		}
	}()
	defer func() {
		x.inGo--
		x.depth, x.fnStack = depth, x.fnStack[:nfn]
		if r := recover(); r != nil {
			if b, ok := r.(blockedOnLock); ok {
				if b.steps-start > 64 {
					x.unsupported("goroutine blocks on a mutex after %d steps (only goroutines that block first are modelled)", b.steps-start)
				}
				if x.parked == nil {
					x.parked = map[*Cell][]parkedGo{}
				}
				x.parked[b.mu] = append(x.parked[b.mu], g)
				return
			}
			panic(r)
		}
	}()
	x.callValue(g.fn, g.args, g.call)
}

type frame struct {
	cut       *cutSpec
	fn        *ssa.Function
	regs      map[ssa.Value]Value
	defers    []deferred
	panicking *goPanic
	recovered bool
	visits    map[*ssa.BasicBlock]int
}

func (x *Exec) get(fr *frame, v ssa.Value) Value {
	switch v := v.(type) {
	case *ssa.Const:
		return x.constVal(v)
	case *ssa.Global:
		return Ptr{C: x.globalCell(v)}
	case *ssa.Function:
		return &Closure{Fn: v}
	case *ssa.Builtin:
		return v
	}
	r, ok := fr.regs[v]
	if !ok {
		x.unsupported("use of undefined SSA value %s in %s", v.Name(), fr.fn)
	}
	return r
}

func (x *Exec) constVal(c *ssa.Const) Value {
	t := c.Type()
	if c.Value == nil {
		return x.zero(t)
	}
	if w, _, ok := typeWidth(t); ok {
		if i, exact := constant.Int64Val(constant.ToInt(c.Value)); exact {
			return x.ctx.ConstS(w, i)
		}
		u, _ := constant.Uint64Val(constant.ToInt(c.Value))
		return x.ctx.Const(w, u)
	}
	switch {
	case isBool(t):
		return x.ctx.BoolC(constant.BoolVal(c.Value))
	case isString(t):
		return Str{S: constant.StringVal(c.Value)}
	case isFloat64(t):
		f, _ := constant.Float64Val(c.Value)
		return x.ctx.F64C(f)
	case isFloat32(t):
		f, _ := constant.Float32Val(c.Value)
		return x.ctx.Const(32, uint64(math.Float32bits(f)))
	}
	x.unsupported("constant of type %v", t)
	return nil
}

func (x *Exec) globalCell(g *ssa.Global) *Cell {
	if c, ok := x.globals[g]; ok {
		return c
	}
	et := g.Type().(*types.Pointer).Elem()
	c := x.newCell(et)
	c.Name = g.String()
	x.globals[g] = c
	// make sure the owning package's initializers ran (repo packages only)
	if g.Pkg != nil && x.eng.isRepoPkg(g.Pkg) {
		x.ensureInit(g.Pkg)
	} else if _, isIface := et.Underlying().(*types.Interface); isIface {
		// std-library sentinel (io.EOF, os.ErrDeadlineExceeded, context.Canceled ...): a unique opaque error
		c.V = x.opaqueError(g.String())
	}
	return c
}

func (x *Exec) opaqueError(name string) Value {
	if v, ok := x.opaque[name]; ok {
		return v
	}
	es := x.eng.errorStringType()
	cell := x.newCell(es)
	cell.Kids[0].V = Str{S: name}
	cell.Name = name
	v := Iface{T: types.NewPointer(es), V: Ptr{C: cell}}
	x.opaque[name] = v
	return v
}

func (x *Exec) ensureInit(p *ssa.Package) {
	if x.initDone[p] {
		return
	}
	x.initDone[p] = true
	if f := p.Func("init"); f != nil && f.Blocks != nil {
		save := x.curPos
		x.call(f, nil, nil)
		x.curPos = save
	}
}

// ---------- running a function ----------

func (x *Exec) call(fn *ssa.Function, args []Value, env []Value) Value {
	if fn.Pkg != nil && !x.eng.isRepoPkg(fn.Pkg) && fn.Synthetic == "package initializer" {
		return nil // std-library package initialisers are not executed (sentinel globals are modelled lazily)
	}
	if fn.Blocks == nil {
		x.unsupported("call of external function %s", fn)
	}
	x.depth++
	if x.depth > 200 {
		x.unsupported("call depth exceeded in %s", fn)
	}
	x.fnStack = append(x.fnStack, fn)
	defer func() { x.depth--; x.fnStack = x.fnStack[:len(x.fnStack)-1] }()
	x.funcs[fn.String()]++
	fr := &frame{fn: fn, regs: make(map[ssa.Value]Value, 32), visits: map[*ssa.BasicBlock]int{}}
	for i, p := range fn.Params {
		fr.regs[p] = args[i]
	}
	for i, fv := range fn.FreeVars {
		fr.regs[fv] = env[i]
	}
	return x.runFrame(fr)
}

func (x *Exec) runFrame(fr *frame) (ret Value) {
	defer func() {
		r := recover()
		if r == nil {
			return
		}
		gp, ok := r.(*goPanic)
		if !ok {
			panic(r)
		}
		// Go panic: run deferred calls, then either recovered or propagate
		fr.panicking = gp
		x.runDefers(fr)
		if fr.panicking != nil {
			panic(fr.panicking)
		}
		// recovered
		if fr.fn.Recover != nil {
			ret = x.runBlocks(fr, fr.fn.Recover, nil)
			return
		}
		// no named results: zero values
		res := fr.fn.Signature.Results()
		switch res.Len() {
		case 0:
			ret = nil
		case 1:
			ret = x.zero(res.At(0).Type())
		default:
			ret = x.zero(res)
		}
	}()
	return x.runBlocks(fr, fr.fn.Blocks[0], nil)
}

func (x *Exec) runDefers(fr *frame) {
	for len(fr.defers) > 0 {
		d := fr.defers[len(fr.defers)-1]
		fr.defers = fr.defers[:len(fr.defers)-1]
		x.invokeDeferred(fr, d)
	}
}

func (x *Exec) invokeDeferred(fr *frame, d deferred) {
	// recover() inside the deferred function refers to fr.panicking
	saved := x.recoverFrame
	x.recoverFrame = fr
	defer func() { x.recoverFrame = saved }()
	func() {
		defer func() {
			if r := recover(); r != nil {
				if gp, ok := r.(*goPanic); ok {
					// a panic in a deferred call replaces the current one
					fr.panicking = gp
					return
				}
				panic(r)
			}
		}()
		x.callValue(d.fn, d.args, d.call)
	}()
}

// runBlocks executes from block b until return.
func (x *Exec) runBlocks(fr *frame, b *ssa.BasicBlock, pred *ssa.BasicBlock) Value {
	var merged *mergeInfo
	for {
		fr.visits[b]++
		if fr.visits[b] > x.unwind {
			panic(pathEnd{"unwind", fmt.Sprintf("loop unwinding budget %d exhausted in %s block %d", x.unwind, fr.fn, b.Index)})
		}
		// phis first (parallel assignment)
		var phiVals []Value
		nphi := 0
		for _, ins := range b.Instrs {
			phi, ok := ins.(*ssa.Phi)
			if !ok {
				break
			}
			nphi++
			if merged != nil {
				a := x.get(fr, phi.Edges[predIndex(b, merged.predT)]).(*term.Term)
				c := x.get(fr, phi.Edges[predIndex(b, merged.predF)]).(*term.Term)
				phiVals = append(phiVals, x.ctx.Ite(merged.cond, a, c))
			} else {
				phiVals = append(phiVals, x.get(fr, phi.Edges[predIndex(b, pred)]))
			}
		}
		if fr.cut != nil && b == fr.cut.header {
			fr.cut.arrivals++
			if fr.cut.arrivals == 1 {
				if len(fr.cut.override) != nphi {
					x.unsupported("cut-point: %d phis at the header, %d values given", nphi, len(fr.cut.override))
				}
				phiVals = fr.cut.override
			} else {
				panic(cutBack{phiVals})
			}
		}
		for i := 0; i < nphi; i++ {
			fr.regs[b.Instrs[i].(*ssa.Phi)] = phiVals[i]
		}
		merged = nil
		for _, ins := range b.Instrs[nphi:] {
			x.steps++
			if x.steps > x.maxStep {
				panic(pathEnd{"budget", "instruction budget exhausted"})
			}
			if p := ins.Pos(); p.IsValid() {
				x.curPos = p
			}
			switch ins := ins.(type) {
			case *ssa.Jump:
				pred, b = b, b.Succs[0]
			case *ssa.If:
				cond := x.get(fr, ins.Cond).(*term.Term)
				if !cond.IsConst() && x.guard == nil {
					if mi := x.tryIfConvert(fr, b, cond); mi != nil {
						merged = mi
						pred, b = nil, mi.join
						break
					}
				}
				if x.branch(cond) {
					pred, b = b, b.Succs[0]
				} else {
					pred, b = b, b.Succs[1]
				}
			case *ssa.Return:
				switch len(ins.Results) {
				case 0:
					return nil
				case 1:
					return x.get(fr, ins.Results[0])
				default:
					t := make(Tuple, len(ins.Results))
					for i, r := range ins.Results {
						t[i] = x.get(fr, r)
					}
					return t
				}
			case *ssa.Panic:
				v := x.get(fr, ins.X)
				x.goPanic("explicit panic", v)
			default:
				x.exec(fr, ins)
			}
		}
	}
}

func predIndex(b, pred *ssa.BasicBlock) int {
	for i, p := range b.Preds {
		if p == pred {
			return i
		}
	}
	panic("predIndex: not a predecessor")
}

// ---------- if-conversion of simple diamonds / triangles ----------

type mergeInfo struct {
	cond         *term.Term
	predT, predF *ssa.BasicBlock
	join         *ssa.BasicBlock
}

func (x *Exec) tryIfConvert(fr *frame, b *ssa.BasicBlock, cond *term.Term) *mergeInfo {
	shape := x.eng.ifShape(b)
	if shape == nil {
		return nil
	}
	if shape.armT != nil {
		x.guard = cond
		x.runArm(fr, shape.armT)
		x.guard = nil
	}
	if shape.armF != nil {
		x.guard = x.ctx.Not(cond)
		x.runArm(fr, shape.armF)
		x.guard = nil
	}
	mi := &mergeInfo{cond: cond, join: shape.join, predT: b, predF: b}
	if shape.armT != nil {
		mi.predT = shape.armT
	}
	if shape.armF != nil {
		mi.predF = shape.armF
	}
	return mi
}

func (x *Exec) runArm(fr *frame, b *ssa.BasicBlock) {
	for _, ins := range b.Instrs[:len(b.Instrs)-1] {
		x.steps++
		if p := ins.Pos(); p.IsValid() {
			x.curPos = p
		}
		x.exec(fr, ins)
	}
}

type ifShape struct {
	armT, armF *ssa.BasicBlock // nil when that edge goes straight to join
	join       *ssa.BasicBlock
}

func armOK(b *ssa.BasicBlock) bool {
	if len(b.Preds) != 1 || len(b.Succs) != 1 {
		return false
	}
	for i, ins := range b.Instrs {
		if i == len(b.Instrs)-1 {
			_, ok := ins.(*ssa.Jump)
			return ok
		}
		switch ins := ins.(type) {
		case *ssa.BinOp:
			if ins.Op == token.QUO || ins.Op == token.REM {
				if _, isC := ins.Y.(*ssa.Const); !isC {
					return false
				}
			}
			if !isScalar(ins.X.Type()) {
				return false
			}
		case *ssa.UnOp:
			if ins.Op == token.ARROW {
				return false
			}
			if !isScalar(ins.Type()) {
				return false
			}
		case *ssa.IndexAddr, *ssa.FieldAddr, *ssa.Field:
		case *ssa.Index:
			if !isScalar(ins.Type()) {
				return false
			}
		case *ssa.Convert:
			if !isScalar(ins.Type()) || !isScalar(ins.X.Type()) {
				return false
			}
		case *ssa.ChangeType:
		case *ssa.Store:
			if !isScalar(ins.Val.Type()) {
				return false
			}
		case *ssa.DebugRef:
		default:
			return false
		}
	}
	return false
}

func computeIfShape(b *ssa.BasicBlock) *ifShape {
	t, f := b.Succs[0], b.Succs[1]
	if t == f {
		return nil
	}
	var sh *ifShape
	switch {
	case armOK(t) && armOK(f) && t.Succs[0] == f.Succs[0]:
		sh = &ifShape{armT: t, armF: f, join: t.Succs[0]}
	case armOK(t) && t.Succs[0] == f:
		sh = &ifShape{armT: t, join: f}
	case armOK(f) && f.Succs[0] == t:
		sh = &ifShape{armF: f, join: t}
	default:
		return nil
	}
	if sh.join == b {
		return nil
	}
	// the join's phis must all be scalar; join must have b/arms among preds exactly once each
	for _, ins := range sh.join.Instrs {
		phi, ok := ins.(*ssa.Phi)
		if !ok {
			break
		}
		if !isScalar(phi.Type()) {
			return nil
		}
	}
	// an arm equal to b itself (self loop) is not handled
	cnt := 0
	for _, p := range sh.join.Preds {
		if p == b {
			cnt++
		}
	}
	if cnt > 1 {
		return nil
	}
	return sh
}

package sym

import (
	"go/types"

	"golang.org/x/tools/go/ssa"

	"verif/engine/term"
)

// prepareCall evaluates callee and arguments of a call site.
func (x *Exec) prepareCall(fr *frame, cc *ssa.CallCommon) (Value, []Value) {
	args := make([]Value, 0, len(cc.Args)+1)
	if cc.IsInvoke() {
		recv := x.get(fr, cc.Value).(Iface)
		if recv.T == nil {
			x.goPanic("nil pointer dereference (method call on nil interface)", nil)
		}
		fn := x.eng.lookupMethod(recv.T, cc.Method)
		if fn == nil {
			x.unsupported("method %s not found on %v", cc.Method.Name(), recv.T)
		}
		args = append(args, recv.V)
		for _, a := range cc.Args {
			args = append(args, x.get(fr, a))
		}
		return &Closure{Fn: fn}, args
	}
	for _, a := range cc.Args {
		args = append(args, x.get(fr, a))
	}
	return x.get(fr, cc.Value), args
}

func (x *Exec) doCall(fr *frame, cc *ssa.CallCommon, site ssa.Instruction) Value {
	fn, args := x.prepareCall(fr, cc)
	save := x.curPos
	r := x.callValueFr(fr, fn, args, cc)
	x.curPos = save
	return r
}

func (x *Exec) callValue(fn Value, args []Value, cc *ssa.CallCommon) Value {
	return x.callValueFr(nil, fn, args, cc)
}

func (x *Exec) callValueFr(fr *frame, fn Value, args []Value, cc *ssa.CallCommon) Value {
	switch f := fn.(type) {
	case *ssa.Builtin:
		return x.builtin(fr, f, args, cc)
	case *Closure:
		if f == nil {
			x.goPanic("nil pointer dereference (call of nil func)", nil)
		}
		if x.guard != nil {
			x.unsupported("call inside if-converted region")
		}
		name := f.Fn.String()
		if h, ok := stubs[name]; ok {
			return h(x, f, args, cc)
		}
		if f.Fn.Pkg != nil && f.Fn.Pkg.Pkg.Name() != "" && isVnd(f.Fn) {
			return x.vnd(f.Fn.Name(), args)
		}
		return x.call(f.Fn, args, f.Env)
	}
	x.unsupported("call of %T", fn)
	return nil
}

func (x *Exec) builtin(fr *frame, b *ssa.Builtin, args []Value, cc *ssa.CallCommon) Value {
	c := x.ctx
	switch b.Name() {
	case "len":
		switch a := args[0].(type) {
		case Slice:
			return a.Len
		case Str:
			return x.strLen(a)
		case ArrayV:
			return x.i64(len(a.E))
		case *MapV:
			if a == nil {
				return x.i64(0)
			}
			return x.i64(len(a.Keys))
		case Ptr:
			return x.i64(len(a.C.Kids))
		case *ChanV:
			return x.i64(len(a.Buf))
		}
	case "cap":
		switch a := args[0].(type) {
		case Slice:
			return a.Cap
		case ArrayV:
			return x.i64(len(a.E))
		case Ptr:
			return x.i64(len(a.C.Kids))
		}
	case "append":
		return x.appendOp(args[0].(Slice), args[1], cc.Args[0].Type())
	case "copy":
		return x.copyOp(args[0].(Slice), args[1])
	case "panic":
		x.goPanic("explicit panic", args[0])
	case "recover":
		if x.recoverFrame != nil && x.recoverFrame.panicking != nil {
			p := x.recoverFrame.panicking
			x.recoverFrame.panicking = nil
			x.recovered = append(x.recovered, p.Msg)
			if p.Val != nil {
				if iv, ok := p.Val.(Iface); ok {
					return iv
				}
			}
			return Iface{T: x.eng.runtimeErrorType(), V: Str{S: p.Msg}}
		}
		return Iface{}
	case "print", "println":
		return nil
	case "ssa:wrapnilchk":
		if p, ok := args[0].(Ptr); ok && p.IsNil() {
			x.goPanic("value method called using nil pointer", nil)
		}
		return args[0]
	case "delete":
		m := args[0].(*MapV)
		x.raceMap(m, true)
		i := x.mapFind(m, args[1])
		if i >= 0 {
			m.Keys = append(m.Keys[:i:i], m.Keys[i+1:]...)
			m.Vals = append(m.Vals[:i:i], m.Vals[i+1:]...)
		}
		return nil
	case "close":
		ch := args[0].(*ChanV)
		x.raceRelease(ch, true)
		ch.Ready = c.True()
		ch.Tag = "closed"
		return nil
	case "min", "max":
		if cc == nil || len(args) == 0 {
			x.unsupported("builtin %s without type information", b.Name())
		}
		_, signed, ok := typeWidth(cc.Args[0].Type())
		if !ok {
			x.unsupported("builtin %s on %v", b.Name(), cc.Args[0].Type())
		}
		acc := args[0].(*term.Term)
		lt := func(p, q *term.Term) *term.Term {
			if signed {
				return c.SLt(p, q)
			}
			return c.ULt(p, q)
		}
		for _, a := range args[1:] {
			t := a.(*term.Term)
			if b.Name() == "min" {
				acc = c.Ite(lt(t, acc), t, acc)
			} else {
				acc = c.Ite(lt(acc, t), t, acc)
			}
		}
		return acc
	}
	x.unsupported("builtin %s on %T", b.Name(), args[0])
	return nil
}

func (x *Exec) appendOp(s Slice, more Value, st types.Type) Value {
	var et types.Type
	if sl, ok := st.Underlying().(*types.Slice); ok {
		et = sl.Elem()
	} else {
		x.unsupported("append to %v", st)
	}
	n := x.cint(s.Len, "append dst len")
	off := x.cint(s.Off, "append dst off")
	cp := x.cint(s.Cap, "append dst cap")
	var src []Value
	switch m := more.(type) {
	case Slice:
		mn := x.cint(m.Len, "append src len")
		mo := x.cint(m.Off, "append src off")
		if mn > 0 {
			x.raceCells(false, m.Arr.Kids[mo:mo+mn]...)
		}
		for i := 0; i < mn; i++ {
			src = append(src, x.loadCell(m.Arr.Kids[mo+i]))
		}
	case Str:
		if m.Sym {
			x.unsupported("append of symbolic string")
		}
		for i := 0; i < len(m.S); i++ {
			src = append(src, x.ctx.Const(8, uint64(m.S[i])))
		}
	default:
		x.unsupported("append of %T", more)
	}
	if len(src) == 0 {
		return s
	}
	if n+len(src) <= cp {
		x.raceCells(true, s.Arr.Kids[off+n:off+n+len(src)]...)
		for i, v := range src {
			x.storeCell(s.Arr.Kids[off+n+i], v)
		}
		return Slice{Arr: s.Arr, Off: s.Off, Len: x.i64(n + len(src)), Cap: s.Cap}
	}
	// grow: new backing array with the capacity the gc runtime (Go 1.23, 64-bit) would give it (runtime.growslice +
	// malloc size classes), so that aliasing after a growing append and cap() observations agree with the native replay
	ncap := n + len(src)
	acap := goGrowCap(ncap, cp, et)
	arr := x.newArrayCell(et, acap)
	if n > 0 {
		x.raceCells(false, s.Arr.Kids[off:off+n]...)
	}
	for i := 0; i < n; i++ {
		x.storeCell(arr.Kids[i], x.loadCell(s.Arr.Kids[off+i]))
	}
	for i, v := range src {
		x.storeCell(arr.Kids[n+i], v)
	}
	return Slice{Arr: arr, Off: x.i64(0), Len: x.i64(ncap), Cap: x.i64(acap)}
}

var goSizeClasses = []int{8, 16, 24, 32, 48, 64, 80, 96, 112, 128, 144, 160, 176, 192, 208, 224, 240, 256, 288, 320, 352, 384, 416, 448, 480, 512, 576, 640, 704, 768, 896, 1024, 1152, 1280, 1408, 1536, 1792, 2048, 2304, 2688, 3072, 3200, 3456, 4096, 4864, 5376, 6144, 6528, 6784, 6912, 8192, 9472, 9728, 10240, 10880, 12288, 13568, 14336, 16384, 18432, 19072, 20480, 21760, 24576, 27264, 28672, 32768}

var goSizes = types.StdSizes{WordSize: 8, MaxAlign: 8}

func typeHasPointers(t types.Type) bool {
	switch u := t.Underlying().(type) {
	case *types.Basic:
		return u.Kind() == types.String || u.Kind() == types.UnsafePointer
	case *types.Struct:
		for i := 0; i < u.NumFields(); i++ {
			if typeHasPointers(u.Field(i).Type()) {
				return true
			}
		}
		return false
	case *types.Array:
		return u.Len() > 0 && typeHasPointers(u.Elem())
	}
	return true
}

// goGrowCap mirrors runtime.nextslicecap + roundupsize of Go 1.23 on a 64-bit platform.
func goGrowCap(newLen, oldCap int, et types.Type) int {
	size := int(goSizes.Sizeof(et))
	if size == 0 {
		return newLen
	}
	newcap := oldCap
	if double := oldCap + oldCap; newLen > double {
		newcap = newLen
	} else if oldCap < 256 {
		newcap = double
	} else {
		for newcap < newLen {
			newcap += (newcap + 3*256) >> 2
		}
	}
	req := newcap * size
	hdr := 0
	if req <= 32768-8 {
		if typeHasPointers(et) && req > 512 {
			hdr = 8
		}
		for _, c := range goSizeClasses {
			if c >= req+hdr {
				return (c - hdr) / size
			}
		}
	}
	req = (req + 8191) &^ 8191
	return req / size
}

func (x *Exec) copyOp(dst Slice, srcv Value) Value {
	dn := x.cint(dst.Len, "copy dst len")
	do := x.cint(dst.Off, "copy dst off")
	var vals []Value
	switch s := srcv.(type) {
	case Slice:
		sn := x.cint(s.Len, "copy src len")
		so := x.cint(s.Off, "copy src off")
		if sn > dn {
			sn = dn
		}
		if sn > 0 {
			x.raceCells(false, s.Arr.Kids[so:so+sn]...)
		}
		for i := 0; i < sn; i++ {
			vals = append(vals, x.loadCell(s.Arr.Kids[so+i]))
		}
	case Str:
		if s.Sym {
			x.unsupported("copy from symbolic string")
		}
		for i := 0; i < len(s.S) && i < dn; i++ {
			vals = append(vals, x.ctx.Const(8, uint64(s.S[i])))
		}
	default:
		x.unsupported("copy from %T", srcv)
	}
	if len(vals) > 0 {
		x.raceCells(true, dst.Arr.Kids[do:do+len(vals)]...)
	}
	for i, v := range vals {
		x.storeCell(dst.Arr.Kids[do+i], v)
	}
	return x.i64(len(vals))
}

// ---------- channels / select (only what ctx.Done / time.After need) ----------

func (x *Exec) recv(ch *ChanV, commaOk bool) Value {
	if ch == nil {
		panic(pathEnd{"assume", "receive from nil channel blocks forever"})
	}
	x.raceAcquire(ch)
	x.raceRelease(recvSide{ch}, true)
	if len(ch.Buf) > 0 {
		v := ch.Buf[0]
		ch.Buf = ch.Buf[1:]
		if commaOk {
			return Tuple{v, x.ctx.True()}
		}
		return v
	}
	if st, ok := ch.Tag.(*timerState); ok {
		zero := x.zero(x.eng.namedType("time", "Time"))
		if st.pending {
			st.pending = false
		} else if st.active && !st.fired {
			st.fired = true // the receiver waits until the timer goes off
			x.clockNS += 150_000_000
		} else {
			x.goPanic("DEADLOCK: receive from a timer channel that will never deliver (timer stopped or its value already taken)", nil)
		}
		if commaOk {
			return Tuple{zero, x.ctx.True()}
		}
		return zero
	}
	if ch.Tag == "closed" || (ch.Ready != nil && ch.Ready.IsTrue()) {
		if commaOk {
			return Tuple{x.zero(types.NewStruct(nil, nil)), x.ctx.False()}
		}
		return x.zero(types.NewStruct(nil, nil))
	}
	x.goPanic("DEADLOCK: blocking receive on a "+ch.Kind+" channel that nothing in this execution can make ready", nil)
	return nil
}

func (x *Exec) chanReady(ch *ChanV) *term.Term {
	if ch == nil {
		return x.ctx.False()
	}
	if len(ch.Buf) > 0 {
		return x.ctx.True()
	}
	if st, ok := ch.Tag.(*timerState); ok {
		return x.ctx.BoolC(st.pending)
	}
	if ch.Ready != nil {
		if f, ok := ch.Tag.(func() *term.Term); ok {
			return f()
		}
		return ch.Ready
	}
	if f, ok := ch.Tag.(func() *term.Term); ok {
		return f()
	}
	return x.ctx.False()
}

func (x *Exec) selectOp(fr *frame, ins *ssa.Select) Value {
	c := x.ctx
	// result tuple: (index int, recvOk bool, r_0 T_0, ... r_n-1 T_n-1) for receive states
	nrecv := 0
	for _, st := range ins.States {
		if st.Dir == types.RecvOnly {
			nrecv++
		}
	}
	mk := func(idx int) Value {
		t := Tuple{x.i64(idx), c.True()}
		for _, st := range ins.States {
			if st.Dir == types.RecvOnly {
				t = append(t, x.zero(st.Chan.Type().Underlying().(*types.Chan).Elem()))
			}
		}
		return t
	}
	for i, st := range ins.States {
		if st.Dir != types.RecvOnly {
			// send case: ready when the (code-made, buffered) channel has room
			ch, _ := x.get(fr, st.Chan).(*ChanV)
			if ch == nil {
				continue
			}
			if ch.Kind != "generic" || ch.Cap < 0 {
				x.unsupported("select with a send case on a %s channel", ch.Kind)
			}
			if len(ch.Buf) < ch.Cap {
				x.raceAcquire(recvSide{ch})
				x.raceRelease(ch, true)
				ch.Buf = append(ch.Buf, x.get(fr, st.Send))
				return mk(i)
			}
			continue
		}
		ch, _ := x.get(fr, st.Chan).(*ChanV)
		if x.branch(x.chanReady(ch)) {
			if ch != nil {
				x.raceAcquire(ch)
				x.raceRelease(recvSide{ch}, true)
			}
			if ch != nil && len(ch.Buf) > 0 {
				ch.Buf = ch.Buf[1:]
			}
			if ch != nil && ch.OnFire != nil {
				ch.OnFire()
			}
			if ch != nil {
				if st, ok := ch.Tag.(*timerState); ok {
					st.pending = false // the value has been received
				}
			}
			return mk(i)
		}
	}
	if !ins.Blocking {
		return mk(-1)
	}
	// blocking select with nothing ready: the harness environment decides that this never happens
	panic(pathEnd{"assume", "blocking select with no ready case"})
}

// Package term is a small hash-consed term DAG for QF_BV (+ a sliver of FP)
// with constant folding, used by the symbolic executor.
package term

import (
	"fmt"
	"math"
	"math/bits"
	"strings"
)

type Op uint8

const (
	OpConst Op = iota
	OpVar
	// bool
	OpNot
	OpAnd
	OpOr
	OpIte // works for bool and bv
	OpEq
	// bv arithmetic
	OpAdd
	OpSub
	OpMul
	OpUDiv
	OpURem
	OpSDiv
	OpSRem
	OpBAnd
	OpBOr
	OpBXor
	OpShl
	OpLShr
	OpAShr
	OpBNot
	OpNeg
	OpULt
	OpULe
	OpSLt
	OpSLe
	OpExtract // p1=hi p2=lo
	OpZExt    // to width W
	OpSExt
	// floating point (float64 only; float32 values are carried as bits)
	OpFPFromU  // bv -> f64 (unsigned, RNE)
	OpFPFromS  // bv -> f64 (signed, RNE)
	OpFPDiv    // f64 / f64 RNE
	OpFPMul    //
	OpFPAdd    //
	OpFPSub    //
	OpFPCeil   // roundToIntegral RTP
	OpFPFloor  // roundToIntegral RTN
	OpFPToS    // f64 -> bv signed RTZ (width W)
	OpFPToU    // f64 -> bv unsigned RTZ
	OpFPFromBV // reinterpret bits (64) as f64
	OpFPLt
	OpFPLe
	OpFPEq
)

type Kind uint8

const (
	KBool Kind = iota
	KBV
	KF64
)

type Sort struct {
	K Kind
	W int
}

var Bool = Sort{KBool, 0}
var F64 = Sort{KF64, 64}

func BV(w int) Sort { return Sort{KBV, w} }

func (s Sort) SMT() string {
	switch s.K {
	case KBool:
		return "Bool"
	case KBV:
		return fmt.Sprintf("(_ BitVec %d)", s.W)
	default:
		return "(_ FloatingPoint 11 53)"
	}
}

type Term struct {
	ID   int
	Op   Op
	S    Sort
	Args []*Term
	Val  uint64 // const payload (bool: 0/1; bv: masked; f64: bits)
	P1   int
	P2   int
	Name string
}

func (t *Term) IsConst() bool { return t.Op == OpConst }
func (t *Term) IsTrue() bool  { return t.Op == OpConst && t.S.K == KBool && t.Val == 1 }
func (t *Term) IsFalse() bool { return t.Op == OpConst && t.S.K == KBool && t.Val == 0 }

// Int returns the constant as signed int64 according to its width.
func (t *Term) Int() int64 {
	if t.S.K != KBV {
		return int64(t.Val)
	}
	return sext(t.Val, t.S.W)
}

type key struct {
	op         Op
	s          Sort
	a0, a1, a2 int
	val        uint64
	p1, p2     int
	name       string
}

// Ctx owns the hash-consing table; one per worker (not goroutine safe).
type Ctx struct {
	tab   map[key]*Term
	next  int
	Vars  []*Term
	fresh int
}

func NewCtx() *Ctx { return &Ctx{tab: map[key]*Term{}} }

func mask(w int) uint64 {
	if w >= 64 {
		return ^uint64(0)
	}
	return (uint64(1) << uint(w)) - 1
}

func sext(v uint64, w int) int64 {
	if w >= 64 {
		return int64(v)
	}
	if v&(1<<uint(w-1)) != 0 {
		return int64(v | ^mask(w))
	}
	return int64(v)
}

func (c *Ctx) mk(op Op, s Sort, val uint64, p1, p2 int, name string, args ...*Term) *Term {
	k := key{op: op, s: s, val: val, p1: p1, p2: p2, name: name, a0: -1, a1: -1, a2: -1}
	if len(args) > 0 {
		k.a0 = args[0].ID
	}
	if len(args) > 1 {
		k.a1 = args[1].ID
	}
	if len(args) > 2 {
		k.a2 = args[2].ID
	}
	if t, ok := c.tab[k]; ok {
		return t
	}
	t := &Term{ID: c.next, Op: op, S: s, Args: append([]*Term(nil), args...), Val: val, P1: p1, P2: p2, Name: name}
	c.next++
	c.tab[k] = t
	return t
}

func (c *Ctx) NumTerms() int { return c.next }

func (c *Ctx) Const(w int, v uint64) *Term { return c.mk(OpConst, BV(w), v&mask(w), 0, 0, "") }
func (c *Ctx) ConstS(w int, v int64) *Term { return c.Const(w, uint64(v)) }
func (c *Ctx) BoolC(b bool) *Term {
	if b {
		return c.mk(OpConst, Bool, 1, 0, 0, "")
	}
	return c.mk(OpConst, Bool, 0, 0, 0, "")
}
func (c *Ctx) True() *Term  { return c.BoolC(true) }
func (c *Ctx) False() *Term { return c.BoolC(false) }
func (c *Ctx) F64C(f float64) *Term {
	return c.mk(OpConst, F64, math.Float64bits(f), 0, 0, "")
}

// Var creates (or returns) a named variable.
func (c *Ctx) Var(name string, s Sort) *Term {
	n := len(c.tab)
	t := c.mk(OpVar, s, 0, 0, 0, name)
	if len(c.tab) != n {
		c.Vars = append(c.Vars, t)
	}
	return t
}

func (c *Ctx) Fresh(prefix string, s Sort) *Term {
	c.fresh++
	return c.Var(fmt.Sprintf("%s!%d", prefix, c.fresh), s)
}

// ---------- bool ----------

func (c *Ctx) Not(a *Term) *Term {
	if a.IsConst() {
		return c.BoolC(a.Val == 0)
	}
	if a.Op == OpNot {
		return a.Args[0]
	}
	return c.mk(OpNot, Bool, 0, 0, 0, "", a)
}

func (c *Ctx) And(a, b *Term) *Term {
	if a.IsConst() {
		if a.Val == 0 {
			return a
		}
		return b
	}
	if b.IsConst() {
		if b.Val == 0 {
			return b
		}
		return a
	}
	if a == b {
		return a
	}
	if (a.Op == OpNot && a.Args[0] == b) || (b.Op == OpNot && b.Args[0] == a) {
		return c.False()
	}
	if a.ID > b.ID {
		a, b = b, a
	}
	return c.mk(OpAnd, Bool, 0, 0, 0, "", a, b)
}

func (c *Ctx) Or(a, b *Term) *Term {
	if a.IsConst() {
		if a.Val == 1 {
			return a
		}
		return b
	}
	if b.IsConst() {
		if b.Val == 1 {
			return b
		}
		return a
	}
	if a == b {
		return a
	}
	if (a.Op == OpNot && a.Args[0] == b) || (b.Op == OpNot && b.Args[0] == a) {
		return c.True()
	}
	if a.ID > b.ID {
		a, b = b, a
	}
	return c.mk(OpOr, Bool, 0, 0, 0, "", a, b)
}

func (c *Ctx) Implies(a, b *Term) *Term { return c.Or(c.Not(a), b) }

func (c *Ctx) Ite(cond, a, b *Term) *Term {
	if cond.IsConst() {
		if cond.Val == 1 {
			return a
		}
		return b
	}
	if a == b {
		return a
	}
	if a.S != b.S {
		panic(fmt.Sprintf("ite sort mismatch %v %v", a.S, b.S))
	}
	if a.S.K == KBool {
		if a.IsConst() && b.IsConst() {
			if a.Val == 1 {
				return cond
			}
			return c.Not(cond)
		}
		if a.IsConst() {
			if a.Val == 1 {
				return c.Or(cond, b)
			}
			return c.And(c.Not(cond), b)
		}
		if b.IsConst() {
			if b.Val == 1 {
				return c.Or(c.Not(cond), a)
			}
			return c.And(cond, a)
		}
	}
	if cond.Op == OpNot {
		return c.Ite(cond.Args[0], b, a)
	}
	// ite(c, ite(c, x, y), z) = ite(c, x, z)
	if a.Op == OpIte && a.Args[0] == cond {
		return c.Ite(cond, a.Args[1], b)
	}
	if b.Op == OpIte && b.Args[0] == cond {
		return c.Ite(cond, a, b.Args[2])
	}
	// ite(c, x|k, x) = x | ite(c, k, 0) for a constant k: keeps a guarded "set bit" a purely bitwise term instead
	// of a chain of word-wide selections (coil packing loops)
	if a.S.K == KBV && a.Op == OpBOr {
		if a.Args[0] == b && a.Args[1].IsConst() {
			return c.BOr(b, c.Ite(cond, a.Args[1], c.Const(a.S.W, 0)))
		}
		if a.Args[1] == b && a.Args[0].IsConst() {
			return c.BOr(b, c.Ite(cond, a.Args[0], c.Const(a.S.W, 0)))
		}
	}
	return c.mk(OpIte, a.S, 0, 0, 0, "", cond, a, b)
}

func (c *Ctx) Eq(a, b *Term) *Term {
	if a.S != b.S {
		panic(fmt.Sprintf("eq sort mismatch %v %v", a.S, b.S))
	}
	if a == b {
		if a.S.K == KF64 {
			// NaN != NaN; keep symbolic unless const
			if a.IsConst() {
				f := math.Float64frombits(a.Val)
				return c.BoolC(f == f)
			}
			return c.mk(OpFPEq, Bool, 0, 0, 0, "", a, b)
		}
		return c.True()
	}
	if a.S.K == KF64 {
		if a.IsConst() && b.IsConst() {
			return c.BoolC(math.Float64frombits(a.Val) == math.Float64frombits(b.Val))
		}
		return c.mk(OpFPEq, Bool, 0, 0, 0, "", a, b)
	}
	if a.IsConst() && b.IsConst() {
		return c.BoolC(a.Val == b.Val)
	}
	if a.S.K == KBool {
		if a.IsConst() {
			if a.Val == 1 {
				return b
			}
			return c.Not(b)
		}
		if b.IsConst() {
			if b.Val == 1 {
				return a
			}
			return c.Not(a)
		}
	}
	// eq(ite(c,k1,k2), k) with constants
	if b.IsConst() && a.Op == OpIte {
		a, b = b, a
	}
	if a.IsConst() && b.Op == OpIte {
		x, y := b.Args[1], b.Args[2]
		if x.IsConst() || y.IsConst() {
			return c.Ite(b.Args[0], c.Eq(a, x), c.Eq(a, y))
		}
	}
	// eq(zext(x), const)
	if a.IsConst() && b.Op == OpZExt {
		in := b.Args[0]
		if a.Val&^mask(in.S.W) != 0 {
			return c.False()
		}
		return c.Eq(c.Const(in.S.W, a.Val), in)
	}
	if b.IsConst() && a.Op == OpZExt {
		return c.Eq(b, a)
	}
	if a.ID > b.ID {
		a, b = b, a
	}
	return c.mk(OpEq, Bool, 0, 0, 0, "", a, b)
}

// ---------- bitvectors ----------

func (c *Ctx) bin(op Op, a, b *Term) *Term {
	if a.S != b.S || a.S.K != KBV {
		panic(fmt.Sprintf("bv binop %d sort mismatch %v %v", op, a.S, b.S))
	}
	w := a.S.W
	if a.IsConst() && b.IsConst() {
		x, y := a.Val, b.Val
		var r uint64
		switch op {
		case OpAdd:
			r = x + y
		case OpSub:
			r = x - y
		case OpMul:
			r = x * y
		case OpUDiv:
			if y == 0 {
				r = mask(w)
			} else {
				r = x / y
			}
		case OpURem:
			if y == 0 {
				r = x
			} else {
				r = x % y
			}
		case OpSDiv:
			sx, sy := sext(x, w), sext(y, w)
			if sy == 0 {
				if sx < 0 {
					r = 1
				} else {
					r = mask(w)
				}
			} else if sy == -1 {
				r = uint64(-sx)
			} else {
				r = uint64(sx / sy)
			}
		case OpSRem:
			sx, sy := sext(x, w), sext(y, w)
			if sy == 0 {
				r = x
			} else if sy == -1 {
				r = 0
			} else {
				r = uint64(sx % sy)
			}
		case OpBAnd:
			r = x & y
		case OpBOr:
			r = x | y
		case OpBXor:
			r = x ^ y
		case OpShl:
			if y >= uint64(w) {
				r = 0
			} else {
				r = x << y
			}
		case OpLShr:
			if y >= uint64(w) {
				r = 0
			} else {
				r = x >> y
			}
		case OpAShr:
			sx := sext(x, w)
			if y >= uint64(w) {
				y = uint64(w - 1)
			}
			r = uint64(sx >> y)
		}
		return c.Const(w, r)
	}
	// light identities
	switch op {
	case OpAdd:
		if a.IsConst() && a.Val == 0 {
			return b
		}
		if b.IsConst() && b.Val == 0 {
			return a
		}
		// (x + k1) + k2
		if b.IsConst() && a.Op == OpAdd && a.Args[1].IsConst() {
			return c.bin(OpAdd, a.Args[0], c.Const(w, a.Args[1].Val+b.Val))
		}
		if a.IsConst() {
			a, b = b, a
		}
	case OpSub:
		if b.IsConst() && b.Val == 0 {
			return a
		}
		if a == b {
			return c.Const(w, 0)
		}
		if b.IsConst() {
			return c.bin(OpAdd, a, c.Const(w, -b.Val))
		}
		// (x + k) - x = k ; (x + k1) - (x + k2) = k1 - k2
		if a.Op == OpAdd && a.Args[1].IsConst() {
			if a.Args[0] == b {
				return a.Args[1]
			}
			if b.Op == OpAdd && b.Args[1].IsConst() && a.Args[0] == b.Args[0] {
				return c.Const(w, a.Args[1].Val-b.Args[1].Val)
			}
		}
		if b.Op == OpAdd && b.Args[1].IsConst() && b.Args[0] == a {
			return c.Const(w, -b.Args[1].Val)
		}
	case OpMul:
		if a.IsConst() {
			a, b = b, a
		}
		if b.IsConst() {
			if b.Val == 0 {
				return b
			}
			if b.Val == 1 {
				return a
			}
		}
	case OpBAnd:
		if a.IsConst() {
			a, b = b, a
		}
		if b.IsConst() {
			if b.Val == 0 {
				return b
			}
			if b.Val == mask(w) {
				return a
			}
		}
		if a == b {
			return a
		}
	case OpBOr:
		// byte reassembly of a 16-bit value: zext(x[7:0]) | (zext(x[15:8]) << 8) = x
		if w == 16 {
			for _, pr := range [][2]*Term{{a, b}, {b, a}} {
				lo, hi := pr[0], pr[1]
				if lo.Op == OpZExt && lo.Args[0].Op == OpExtract && lo.Args[0].P1 == 7 && lo.Args[0].P2 == 0 &&
					hi.Op == OpShl && hi.Args[1].IsConst() && hi.Args[1].Val == 8 && hi.Args[0].Op == OpZExt &&
					hi.Args[0].Args[0].Op == OpExtract && hi.Args[0].Args[0].P1 == 15 && hi.Args[0].Args[0].P2 == 8 &&
					hi.Args[0].Args[0].Args[0] == lo.Args[0].Args[0] && lo.Args[0].Args[0].S.W == 16 {
					return lo.Args[0].Args[0]
				}
			}
		}
		if a.IsConst() {
			a, b = b, a
		}
		if b.IsConst() {
			if b.Val == 0 {
				return a
			}
			if b.Val == mask(w) {
				return b
			}
		}
		if a == b {
			return a
		}
	case OpBXor:
		if a.IsConst() {
			a, b = b, a
		}
		if b.IsConst() && b.Val == 0 {
			return a
		}
		if a == b {
			return c.Const(w, 0)
		}
	case OpShl, OpLShr, OpAShr:
		if b.IsConst() && b.Val == 0 {
			return a
		}
		if a.IsConst() && a.Val == 0 {
			return a
		}
	case OpUDiv:
		if b.IsConst() && b.Val == 1 {
			return a
		}
		if b.IsConst() && b.Val&(b.Val-1) == 0 && b.Val != 0 {
			return c.bin(OpLShr, a, c.Const(w, uint64(bits.TrailingZeros64(b.Val))))
		}
	case OpURem:
		if b.IsConst() && b.Val&(b.Val-1) == 0 && b.Val != 0 {
			return c.bin(OpBAnd, a, c.Const(w, b.Val-1))
		}
	case OpSDiv:
		if b.IsConst() && b.Val == 1 {
			return a
		}
		if b.IsConst() && sext(b.Val, w) > 1 && b.Val&(b.Val-1) == 0 {
			// x / 2^k (truncating) = (x + ((x >>s (w-1)) & (2^k-1))) >>s k
			k := uint64(bits.TrailingZeros64(b.Val))
			sign := c.bin(OpAShr, a, c.Const(w, uint64(w-1)))
			adj := c.bin(OpBAnd, sign, c.Const(w, b.Val-1))
			return c.bin(OpAShr, c.bin(OpAdd, a, adj), c.Const(w, k))
		}
	case OpSRem:
		if b.IsConst() && sext(b.Val, w) > 1 && b.Val&(b.Val-1) == 0 {
			q := c.bin(OpSDiv, a, b)
			k := uint64(bits.TrailingZeros64(b.Val))
			return c.bin(OpSub, a, c.bin(OpShl, q, c.Const(w, k)))
		}
	}
	return c.mk(op, a.S, 0, 0, 0, "", a, b)
}

func (c *Ctx) Add(a, b *Term) *Term  { return c.bin(OpAdd, a, b) }
func (c *Ctx) Sub(a, b *Term) *Term  { return c.bin(OpSub, a, b) }
func (c *Ctx) Mul(a, b *Term) *Term  { return c.bin(OpMul, a, b) }
func (c *Ctx) UDiv(a, b *Term) *Term { return c.bin(OpUDiv, a, b) }
func (c *Ctx) URem(a, b *Term) *Term { return c.bin(OpURem, a, b) }
func (c *Ctx) SDiv(a, b *Term) *Term { return c.bin(OpSDiv, a, b) }
func (c *Ctx) SRem(a, b *Term) *Term { return c.bin(OpSRem, a, b) }
func (c *Ctx) BAnd(a, b *Term) *Term { return c.bin(OpBAnd, a, b) }
func (c *Ctx) BOr(a, b *Term) *Term  { return c.bin(OpBOr, a, b) }
func (c *Ctx) BXor(a, b *Term) *Term { return c.bin(OpBXor, a, b) }
func (c *Ctx) Shl(a, b *Term) *Term  { return c.bin(OpShl, a, b) }
func (c *Ctx) LShr(a, b *Term) *Term { return c.bin(OpLShr, a, b) }
func (c *Ctx) AShr(a, b *Term) *Term { return c.bin(OpAShr, a, b) }

func (c *Ctx) BNot(a *Term) *Term {
	if a.IsConst() {
		return c.Const(a.S.W, ^a.Val)
	}
	if a.Op == OpBNot {
		return a.Args[0]
	}
	return c.mk(OpBNot, a.S, 0, 0, 0, "", a)
}

func (c *Ctx) Neg(a *Term) *Term {
	if a.IsConst() {
		return c.Const(a.S.W, -a.Val)
	}
	return c.mk(OpNeg, a.S, 0, 0, 0, "", a)
}

func (c *Ctx) cmp(op Op, a, b *Term) *Term {
	if a.S != b.S || a.S.K != KBV {
		panic(fmt.Sprintf("bv cmp sort mismatch %v %v", a.S, b.S))
	}
	w := a.S.W
	if a.IsConst() && b.IsConst() {
		switch op {
		case OpULt:
			return c.BoolC(a.Val < b.Val)
		case OpULe:
			return c.BoolC(a.Val <= b.Val)
		case OpSLt:
			return c.BoolC(sext(a.Val, w) < sext(b.Val, w))
		case OpSLe:
			return c.BoolC(sext(a.Val, w) <= sext(b.Val, w))
		}
	}
	if a == b {
		return c.BoolC(op == OpULe || op == OpSLe)
	}
	switch op {
	case OpULt:
		if b.IsConst() && b.Val == 0 {
			return c.False()
		}
		if a.IsConst() && a.Val == mask(w) {
			return c.False()
		}
	case OpULe:
		if a.IsConst() && a.Val == 0 {
			return c.True()
		}
		if b.IsConst() && b.Val == mask(w) {
			return c.True()
		}
	}
	// comparisons of zero-extended values against constants: narrow them
	if a.Op == OpZExt && b.IsConst() {
		in := a.Args[0]
		iw := in.S.W
		switch op {
		case OpULt, OpULe:
			if b.Val > mask(iw) {
				return c.True()
			}
			return c.cmp(op, in, c.Const(iw, b.Val))
		case OpSLt, OpSLe:
			if iw < w { // zext value is non-negative
				sb := sext(b.Val, w)
				if sb < 0 {
					return c.False()
				}
				if uint64(sb) > mask(iw) {
					return c.True()
				}
				if op == OpSLt {
					return c.cmp(OpULt, in, c.Const(iw, uint64(sb)))
				}
				return c.cmp(OpULe, in, c.Const(iw, uint64(sb)))
			}
		}
	}
	if b.Op == OpZExt && a.IsConst() {
		in := b.Args[0]
		iw := in.S.W
		switch op {
		case OpULt, OpULe:
			if a.Val > mask(iw) {
				return c.False()
			}
			return c.cmp(op, c.Const(iw, a.Val), in)
		case OpSLt, OpSLe:
			if iw < w {
				sa := sext(a.Val, w)
				if sa < 0 {
					return c.True()
				}
				if uint64(sa) > mask(iw) {
					return c.False()
				}
				if op == OpSLt {
					return c.cmp(OpULt, c.Const(iw, uint64(sa)), in)
				}
				return c.cmp(OpULe, c.Const(iw, uint64(sa)), in)
			}
		}
	}
	return c.mk(op, Bool, 0, 0, 0, "", a, b)
}

func (c *Ctx) ULt(a, b *Term) *Term { return c.cmp(OpULt, a, b) }
func (c *Ctx) ULe(a, b *Term) *Term { return c.cmp(OpULe, a, b) }
func (c *Ctx) SLt(a, b *Term) *Term { return c.cmp(OpSLt, a, b) }
func (c *Ctx) SLe(a, b *Term) *Term { return c.cmp(OpSLe, a, b) }

func (c *Ctx) Extract(a *Term, hi, lo int) *Term {
	w := hi - lo + 1
	if lo == 0 && w == a.S.W {
		return a
	}
	if a.IsConst() {
		return c.Const(w, a.Val>>uint(lo))
	}
	if (a.Op == OpZExt || a.Op == OpSExt) && lo == 0 {
		in := a.Args[0]
		if w == in.S.W {
			return in
		}
		if w < in.S.W {
			return c.Extract(in, hi, 0)
		}
		if a.Op == OpZExt {
			return c.ZExt(in, w)
		}
		return c.SExt(in, w)
	}
	if a.Op == OpExtract {
		return c.Extract(a.Args[0], a.P2+hi, a.P2+lo)
	}
	// extract of a logical right shift by a constant: shift the window (when it stays inside the value)
	if a.Op == OpLShr && a.Args[1].IsConst() {
		k := int(a.Args[1].Val)
		if hi+k < a.S.W {
			return c.Extract(a.Args[0], hi+k, lo+k)
		}
	}
	return c.mk(OpExtract, BV(w), 0, hi, lo, "", a)
}

func (c *Ctx) ZExt(a *Term, w int) *Term {
	if w == a.S.W {
		return a
	}
	if w < a.S.W {
		return c.Extract(a, w-1, 0)
	}
	if a.IsConst() {
		return c.Const(w, a.Val)
	}
	if a.Op == OpZExt {
		return c.ZExt(a.Args[0], w)
	}
	return c.mk(OpZExt, BV(w), 0, 0, 0, "", a)
}

func (c *Ctx) SExt(a *Term, w int) *Term {
	if w == a.S.W {
		return a
	}
	if w < a.S.W {
		return c.Extract(a, w-1, 0)
	}
	if a.IsConst() {
		return c.Const(w, uint64(sext(a.Val, a.S.W)))
	}
	if a.Op == OpZExt {
		return c.ZExt(a.Args[0], w)
	}
	return c.mk(OpSExt, BV(w), 0, 0, 0, "", a)
}

// ---------- floating point (float64) ----------

func (c *Ctx) FPFromU(a *Term) *Term {
	if a.IsConst() {
		return c.F64C(float64(a.Val))
	}
	return c.mk(OpFPFromU, F64, 0, 0, 0, "", a)
}
func (c *Ctx) FPFromS(a *Term) *Term {
	if a.IsConst() {
		return c.F64C(float64(a.Int()))
	}
	return c.mk(OpFPFromS, F64, 0, 0, 0, "", a)
}
func (c *Ctx) FPFromBits(a *Term) *Term {
	if a.IsConst() {
		return c.mk(OpConst, F64, a.Val, 0, 0, "")
	}
	return c.mk(OpFPFromBV, F64, 0, 0, 0, "", a)
}
func (c *Ctx) fpbin(op Op, a, b *Term) *Term {
	if a.IsConst() && b.IsConst() {
		x, y := math.Float64frombits(a.Val), math.Float64frombits(b.Val)
		switch op {
		case OpFPDiv:
			return c.F64C(x / y)
		case OpFPMul:
			return c.F64C(x * y)
		case OpFPAdd:
			return c.F64C(x + y)
		case OpFPSub:
			return c.F64C(x - y)
		}
	}
	return c.mk(op, F64, 0, 0, 0, "", a, b)
}
func (c *Ctx) FPDiv(a, b *Term) *Term { return c.fpbin(OpFPDiv, a, b) }
func (c *Ctx) FPMul(a, b *Term) *Term { return c.fpbin(OpFPMul, a, b) }
func (c *Ctx) FPAdd(a, b *Term) *Term { return c.fpbin(OpFPAdd, a, b) }
func (c *Ctx) FPSub(a, b *Term) *Term { return c.fpbin(OpFPSub, a, b) }
func (c *Ctx) FPCeil(a *Term) *Term {
	if a.IsConst() {
		return c.F64C(math.Ceil(math.Float64frombits(a.Val)))
	}
	return c.mk(OpFPCeil, F64, 0, 0, 0, "", a)
}
func (c *Ctx) FPFloor(a *Term) *Term {
	if a.IsConst() {
		return c.F64C(math.Floor(math.Float64frombits(a.Val)))
	}
	return c.mk(OpFPFloor, F64, 0, 0, 0, "", a)
}
func (c *Ctx) FPToS(a *Term, w int) *Term {
	if a.IsConst() {
		return c.Const(w, uint64(int64(math.Float64frombits(a.Val))))
	}
	return c.mk(OpFPToS, BV(w), 0, 0, 0, "", a)
}
func (c *Ctx) FPToU(a *Term, w int) *Term {
	if a.IsConst() {
		return c.Const(w, uint64(math.Float64frombits(a.Val)))
	}
	return c.mk(OpFPToU, BV(w), 0, 0, 0, "", a)
}
func (c *Ctx) FPLt(a, b *Term) *Term {
	if a.IsConst() && b.IsConst() {
		return c.BoolC(math.Float64frombits(a.Val) < math.Float64frombits(b.Val))
	}
	return c.mk(OpFPLt, Bool, 0, 0, 0, "", a, b)
}
func (c *Ctx) FPLe(a, b *Term) *Term {
	if a.IsConst() && b.IsConst() {
		return c.BoolC(math.Float64frombits(a.Val) <= math.Float64frombits(b.Val))
	}
	return c.mk(OpFPLe, Bool, 0, 0, 0, "", a, b)
}

// ---------- printing ----------

var opName = map[Op]string{
	OpNot: "not", OpAnd: "and", OpOr: "or", OpIte: "ite", OpEq: "=",
	OpAdd: "bvadd", OpSub: "bvsub", OpMul: "bvmul", OpUDiv: "bvudiv", OpURem: "bvurem",
	OpSDiv: "bvsdiv", OpSRem: "bvsrem", OpBAnd: "bvand", OpBOr: "bvor", OpBXor: "bvxor",
	OpShl: "bvshl", OpLShr: "bvlshr", OpAShr: "bvashr", OpBNot: "bvnot", OpNeg: "bvneg",
	OpULt: "bvult", OpULe: "bvule", OpSLt: "bvslt", OpSLe: "bvsle",
	OpFPDiv: "fp.div RNE", OpFPMul: "fp.mul RNE", OpFPAdd: "fp.add RNE", OpFPSub: "fp.sub RNE",
	OpFPCeil: "fp.roundToIntegral RTP", OpFPFloor: "fp.roundToIntegral RTN",
	OpFPLt: "fp.lt", OpFPLe: "fp.leq", OpFPEq: "fp.eq",
}

// Ref is how a term is referred to inside SMT text.
func Ref(t *Term) string {
	switch t.Op {
	case OpConst:
		switch t.S.K {
		case KBool:
			if t.Val == 1 {
				return "true"
			}
			return "false"
		case KBV:
			if t.S.W%4 == 0 {
				return fmt.Sprintf("#x%0*x", t.S.W/4, t.Val)
			}
			return fmt.Sprintf("#b%0*b", t.S.W, t.Val)
		default:
			return fmt.Sprintf("((_ to_fp 11 53) #x%016x)", t.Val)
		}
	case OpVar:
		return "|" + t.Name + "|"
	}
	return fmt.Sprintf("t%d", t.ID)
}

// Body is the defining expression of a non-leaf term (arguments by Ref).
func Body(t *Term) string {
	var sb strings.Builder
	switch t.Op {
	case OpExtract:
		fmt.Fprintf(&sb, "((_ extract %d %d) %s)", t.P1, t.P2, Ref(t.Args[0]))
	case OpZExt:
		fmt.Fprintf(&sb, "((_ zero_extend %d) %s)", t.S.W-t.Args[0].S.W, Ref(t.Args[0]))
	case OpSExt:
		fmt.Fprintf(&sb, "((_ sign_extend %d) %s)", t.S.W-t.Args[0].S.W, Ref(t.Args[0]))
	case OpFPFromU:
		fmt.Fprintf(&sb, "((_ to_fp_unsigned 11 53) RNE %s)", Ref(t.Args[0]))
	case OpFPFromS:
		fmt.Fprintf(&sb, "((_ to_fp 11 53) RNE %s)", Ref(t.Args[0]))
	case OpFPFromBV:
		fmt.Fprintf(&sb, "((_ to_fp 11 53) %s)", Ref(t.Args[0]))
	case OpFPToS:
		fmt.Fprintf(&sb, "((_ fp.to_sbv %d) RTZ %s)", t.S.W, Ref(t.Args[0]))
	case OpFPToU:
		fmt.Fprintf(&sb, "((_ fp.to_ubv %d) RTZ %s)", t.S.W, Ref(t.Args[0]))
	default:
		sb.WriteString("(")
		sb.WriteString(opName[t.Op])
		for _, a := range t.Args {
			sb.WriteString(" ")
			sb.WriteString(Ref(a))
		}
		sb.WriteString(")")
	}
	return sb.String()
}

// Eval evaluates a term under an assignment of variables (by name).
// Only BV/Bool (no FP vars); used for model sanity checks and concrete replay.
func Eval(t *Term, env map[string]uint64, memo map[int]uint64) uint64 {
	if v, ok := memo[t.ID]; ok {
		return v
	}
	var r uint64
	a := func(i int) uint64 { return Eval(t.Args[i], env, memo) }
	b2u := func(b bool) uint64 {
		if b {
			return 1
		}
		return 0
	}
	w := t.S.W
	switch t.Op {
	case OpConst:
		r = t.Val
	case OpVar:
		r = env[t.Name]
	case OpNot:
		r = 1 - a(0)
	case OpAnd:
		r = a(0) & a(1)
	case OpOr:
		r = a(0) | a(1)
	case OpIte:
		if a(0) == 1 {
			r = a(1)
		} else {
			r = a(2)
		}
	case OpEq:
		r = b2u(a(0) == a(1))
	case OpAdd:
		r = a(0) + a(1)
	case OpSub:
		r = a(0) - a(1)
	case OpMul:
		r = a(0) * a(1)
	case OpUDiv:
		if a(1) == 0 {
			r = mask(w)
		} else {
			r = a(0) / a(1)
		}
	case OpURem:
		if a(1) == 0 {
			r = a(0)
		} else {
			r = a(0) % a(1)
		}
	case OpSDiv:
		x, y := sext(a(0), w), sext(a(1), w)
		if y == 0 {
			if x < 0 {
				r = 1
			} else {
				r = mask(w)
			}
		} else if y == -1 {
			r = uint64(-x)
		} else {
			r = uint64(x / y)
		}
	case OpSRem:
		x, y := sext(a(0), w), sext(a(1), w)
		if y == 0 {
			r = uint64(x)
		} else if y == -1 {
			r = 0
		} else {
			r = uint64(x % y)
		}
	case OpBAnd:
		r = a(0) & a(1)
	case OpBOr:
		r = a(0) | a(1)
	case OpBXor:
		r = a(0) ^ a(1)
	case OpShl:
		if a(1) >= uint64(w) {
			r = 0
		} else {
			r = a(0) << a(1)
		}
	case OpLShr:
		if a(1) >= uint64(w) {
			r = 0
		} else {
			r = a(0) >> a(1)
		}
	case OpAShr:
		y := a(1)
		if y >= uint64(w) {
			y = uint64(w - 1)
		}
		r = uint64(sext(a(0), w) >> y)
	case OpBNot:
		r = ^a(0)
	case OpNeg:
		r = -a(0)
	case OpULt:
		r = b2u(a(0) < a(1))
	case OpULe:
		r = b2u(a(0) <= a(1))
	case OpSLt:
		aw := t.Args[0].S.W
		r = b2u(sext(a(0), aw) < sext(a(1), aw))
	case OpSLe:
		aw := t.Args[0].S.W
		r = b2u(sext(a(0), aw) <= sext(a(1), aw))
	case OpExtract:
		r = a(0) >> uint(t.P2)
	case OpZExt:
		r = a(0)
	case OpSExt:
		r = uint64(sext(a(0), t.Args[0].S.W))
	default:
		panic("Eval: unsupported op (FP)")
	}
	if t.S.K == KBV {
		r &= mask(w)
	}
	memo[t.ID] = r
	return r
}

var _ = bits.Len

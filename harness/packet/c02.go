//go:build verif

package packet

import "errors"

// C02 — responses decode to exactly what was sent; exceptions become typed errors; inconsistent byte counts are rejected.

// vhResponse builds the well-formed response ADU number sel (0..9 = FC 1,2,3,4,5,6,15,16,17,23) from symbolic
// fields following the specification's layout, together with the value the parser is expected to produce.
// p = payload bytes (FC1-4,23: data; FC17: server id), q = FC17 additional data bytes.
func vhResponse(sel int, tcp bool, p, q int) (frame []byte, want Response) {
	fc := vhFCs[sel]
	tid := vndU16("tid")
	unit := vndU8("unit")
	a1, a2 := vndU16("a1"), vndU16("a2")
	h1, l1 := vhBE(a1)
	h2, l2 := vhBE(a2)
	data := vndBytes("data", p, 0)
	extra := vndBytes("extra", q, 0)
	status := vndU8("status")
	var pdu []byte
	hdr := MBAPHeader{TransactionID: tid}
	switch sel {
	case 0:
		pdu = append([]byte{fc, byte(p)}, data...)
		v := ReadCoilsResponse{UnitID: unit, CoilsByteLength: byte(p), Data: data}
		if tcp {
			want = &ReadCoilsResponseTCP{hdr, v}
		} else {
			want = &ReadCoilsResponseRTU{v}
		}
	case 1:
		pdu = append([]byte{fc, byte(p)}, data...)
		v := ReadDiscreteInputsResponse{UnitID: unit, InputsByteLength: byte(p), Data: data}
		if tcp {
			want = &ReadDiscreteInputsResponseTCP{hdr, v}
		} else {
			want = &ReadDiscreteInputsResponseRTU{v}
		}
	case 2:
		pdu = append([]byte{fc, byte(p)}, data...)
		v := ReadHoldingRegistersResponse{UnitID: unit, RegisterByteLen: byte(p), Data: data}
		if tcp {
			want = &ReadHoldingRegistersResponseTCP{hdr, v}
		} else {
			want = &ReadHoldingRegistersResponseRTU{v}
		}
	case 3:
		pdu = append([]byte{fc, byte(p)}, data...)
		v := ReadInputRegistersResponse{UnitID: unit, RegisterByteLen: byte(p), Data: data}
		if tcp {
			want = &ReadInputRegistersResponseTCP{hdr, v}
		} else {
			want = &ReadInputRegistersResponseRTU{v}
		}
	case 4:
		on := vndBool("on")
		vb := byte(0)
		if on {
			vb = 0xFF
		}
		pdu = []byte{fc, h1, l1, vb, 0}
		v := WriteSingleCoilResponse{UnitID: unit, StartAddress: a1, CoilState: on}
		if tcp {
			want = &WriteSingleCoilResponseTCP{hdr, v}
		} else {
			want = &WriteSingleCoilResponseRTU{v}
		}
	case 5:
		pdu = []byte{fc, h1, l1, h2, l2}
		v := WriteSingleRegisterResponse{UnitID: unit, Address: a1, Data: [2]byte{h2, l2}}
		if tcp {
			want = &WriteSingleRegisterResponseTCP{hdr, v}
		} else {
			want = &WriteSingleRegisterResponseRTU{v}
		}
	case 6:
		pdu = []byte{fc, h1, l1, h2, l2}
		v := WriteMultipleCoilsResponse{UnitID: unit, StartAddress: a1, CoilCount: a2}
		if tcp {
			want = &WriteMultipleCoilsResponseTCP{hdr, v}
		} else {
			want = &WriteMultipleCoilsResponseRTU{v}
		}
	case 7:
		pdu = []byte{fc, h1, l1, h2, l2}
		v := WriteMultipleRegistersResponse{UnitID: unit, StartAddress: a1, RegisterCount: a2}
		if tcp {
			want = &WriteMultipleRegistersResponseTCP{hdr, v}
		} else {
			want = &WriteMultipleRegistersResponseRTU{v}
		}
	case 8: // library's documented FC17 layout: id length | id | status | additional data
		pdu = append([]byte{fc, byte(p)}, data...)
		pdu = append(pdu, status)
		pdu = append(pdu, extra...)
		var add []byte
		if q > 0 {
			add = extra
		}
		v := ReadServerIDResponse{UnitID: unit, Status: status, ServerID: data, AdditionalData: add}
		if tcp {
			want = &ReadServerIDResponseTCP{hdr, v}
		} else {
			want = &ReadServerIDResponseRTU{v}
		}
	case 9:
		pdu = append([]byte{fc, byte(p)}, data...)
		v := ReadWriteMultipleRegistersResponse{UnitID: unit, RegisterByteLen: byte(p), Data: data}
		if tcp {
			want = &ReadWriteMultipleRegistersResponseTCP{hdr, v}
		} else {
			want = &ReadWriteMultipleRegistersResponseRTU{v}
		}
	default:
		vndAssume(false)
	}
	return vhSpecADU(tcp, tid, unit, pdu), want
}

// mustAccept is false for register payloads with an odd byte count: the format allows the value, a conforming device
// never sends it, so the parser may refuse the frame - but what it accepts must still come back byte for byte.
func vhC02Judge(frame []byte, want, got Response, err error, label string, mustAccept bool) {
	if mustAccept {
		vndAssert(err == nil && got != nil, label+": well-formed response is accepted")
	} else if err != nil {
		vndCover("odd-byte-count-refused")
		vndAssert(got == nil || vndIsNilPtr(got), label+": a refused frame yields no response value")
		return
	}
	if err != nil || got == nil {
		return
	}
	vndAssert(got.FunctionCode() == want.FunctionCode(), label+": function code")
	vndAssert(vhSameResponse(got, want), label+": decoded fields equal the frame's fields")
	vndAssert(vhEqualBytes(got.Bytes(), frame), label+": re-encoding reproduces the frame")
}

// vhSameResponse compares decoded values field by field (nil and empty additional data are the same "no data").
func vhSameResponse(a, b Response) bool {
	if ra, ok := a.(*ReadServerIDResponseTCP); ok {
		rb, ok2 := b.(*ReadServerIDResponseTCP)
		return ok2 && ra.TransactionID == rb.TransactionID && vhSameServerID(ra.ReadServerIDResponse, rb.ReadServerIDResponse)
	}
	if ra, ok := a.(*ReadServerIDResponseRTU); ok {
		rb, ok2 := b.(*ReadServerIDResponseRTU)
		return ok2 && vhSameServerID(ra.ReadServerIDResponse, rb.ReadServerIDResponse)
	}
	return vndDeepEqual(a, b)
}

func vhSameServerID(a, b ReadServerIDResponse) bool {
	return a.UnitID == b.UnitID && a.Status == b.Status && vhEqualBytes(a.ServerID, b.ServerID) && vhEqualBytes(a.AdditionalData, b.AdditionalData)
}

func VH_C02_decode() {
	sel := vndParam("sel")
	tcp := vndParam("tcp") == 1
	frame, want := vhResponse(sel, tcp, vndParam("p"), vndParam("q"))
	vndCover("well-formed")
	must := !((sel == 2 || sel == 3 || sel == 9) && vndParam("p")%2 != 0)
	if tcp {
		got, err := ParseTCPResponse(frame)
		vhC02Judge(frame, want, got, err, "ParseTCPResponse", must)
		return
	}
	got, err := ParseRTUResponse(frame)
	vhC02Judge(frame, want, got, err, "ParseRTUResponse", must)
	got, err = ParseRTUResponseWithCRC(frame)
	vhC02Judge(frame, want, got, err, "ParseRTUResponseWithCRC", must)
}

// VH_C02_exception_wellformed: every well-formed exception ADU yields the typed error with the frame's fields.
func VH_C02_exception_wellformed() {
	tcp := vndParam("tcp") == 1
	tid := vndU16("tid")
	unit := vndU8("unit")
	fc := vndU8("fc")
	code := vndU8("code")
	vndAssume(fc >= 0x80)
	frame := vhSpecADU(tcp, tid, unit, []byte{fc, code})
	vndCover("exception")
	if tcp {
		got, err := ParseTCPResponse(frame)
		vndAssert(got == nil && err != nil, "exception frame is an error, never a response")
		var te *ErrorResponseTCP
		ok := errors.As(err, &te)
		vndAssert(ok, "error is the typed TCP exception")
		if ok {
			vndAssert(te.TransactionID == tid && te.UnitID == unit && te.Function == fc&0x7F && te.Code == code, "typed error carries transaction id, unit id, function and code of the frame")
			vndAssert(te.FunctionCode() == fc&0x7F, "FunctionCode() is the originating function")
		}
		return
	}
	for i := 0; i < 2; i++ {
		var got Response
		var err error
		if i == 0 {
			got, err = ParseRTUResponse(frame)
		} else {
			got, err = ParseRTUResponseWithCRC(frame)
		}
		vndAssert(got == nil && err != nil, "exception frame is an error, never a response")
		var re *ErrorResponseRTU
		ok := errors.As(err, &re)
		vndAssert(ok, "error is the typed RTU exception")
		if ok {
			vndAssert(re.UnitID == unit && re.Function == fc&0x7F && re.Code == code, "typed error carries unit id, function and code of the frame")
		}
	}
}

// VH_C02_highbit_never_response: any frame, of any length, whose function byte has the high bit set is never a response.
func VH_C02_highbit_never_response() {
	tcp := vndParam("tcp") == 1
	L := vndParam("L")
	frame := vndBytes("frame", L, 0)
	var got Response
	var err error
	if tcp {
		vndAssume(L >= 8)
		vndAssume(frame[7]&0x80 != 0)
		got, err = ParseTCPResponse(frame)
	} else {
		vndAssume(L >= 2)
		vndAssume(frame[1]&0x80 != 0)
		got, err = ParseRTUResponse(frame)
	}
	vndCover("highbit")
	vndAssert(err != nil, "function code with the high bit set is reported as an error")
	vndAssert(got == nil || vndIsNilPtr(got), "and no response value is returned")
}

// VH_C02_bytecount_mismatch: a frame of a byte-counted function whose length disagrees with its byte count is rejected.
func VH_C02_bytecount_mismatch() {
	tcp := vndParam("tcp") == 1
	L := vndParam("L")
	frame := vndBytes("frame", L, 0)
	var err error
	if tcp {
		vndAssume(L >= 9)
		fc := frame[7]
		vndAssume(fc == 1 || fc == 2 || fc == 3 || fc == 4 || fc == 23)
		vndAssume(int(frame[8]) != L-9)
		_, err = ParseTCPResponse(frame)
	} else {
		vndAssume(L >= 5)
		fc := frame[1]
		vndAssume(fc == 1 || fc == 2 || fc == 3 || fc == 4 || fc == 23)
		vndAssume(int(frame[2]) != L-5)
		_, err = ParseRTUResponse(frame)
	}
	vndCover("mismatch")
	vndAssert(err != nil, "length disagreeing with the byte-count field is rejected")
}

// VH_C02_decode_twice: parsing is a function of the frame alone - a frame parsed after another one (same function,
// its own arbitrary contents) decodes exactly, and the value parsed first is not changed by the second parse (no
// scratch buffer or cache shared between calls).
func VH_C02_decode_twice() {
	sel := vndParam("sel")
	tcp := vndParam("tcp") == 1
	frameA, wantA := vhResponse(sel, tcp, vndParam("p"), vndParam("q"))
	frameB, wantB := vhResponse(sel, tcp, vndParam("p"), vndParam("q"))
	parse := func(f []byte) (Response, error) {
		if tcp {
			return ParseTCPResponse(f)
		}
		return ParseRTUResponseWithCRC(f)
	}
	gotA, errA := parse(frameA)
	vhC02Judge(frameA, wantA, gotA, errA, "first parse", true)
	if errA != nil || gotA == nil {
		return
	}
	gotB, errB := parse(frameB)
	vndCover("second-parse")
	vhC02Judge(frameB, wantB, gotB, errB, "second parse", true)
	vndAssert(vhEqualBytes(gotA.Bytes(), frameA), "a response parsed earlier still re-encodes to its own frame after another frame has been parsed")
}

//go:build verif

package packet

// vndLoopStepCRC16 executes ONE trip of CRC16's byte loop from an arbitrary loop state (crc, idx) over data.
// The symbolic executor starts the real function at the loop header with the loop-carried values replaced by
// (crc, idx). Natively the same state is reached through the real function: a 2-byte prefix p with
// CRC16(p) == crc exists for every crc (the state update is a bijection), so the step is CRC16(p ++ data[idx+1]).
func vndLoopStepCRC16(data []byte, crc uint16, idx int) (crc2 uint16, idx2 int, returned bool, ret uint16) {
	if idx+1 >= len(data) {
		return 0, 0, true, crc
	}
	for p := 0; p < 65536; p++ {
		pre := []byte{byte(p >> 8), byte(p)}
		if CRC16(pre) == crc {
			return CRC16(append(pre, data[idx+1])), idx + 1, false, 0
		}
	}
	panic("vndLoopStepCRC16: no 2-byte prefix reaches this state")
}

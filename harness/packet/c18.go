//go:build verif

package packet

import "errors"

// C18 — the TCP stream classifier agrees with the encoders and with the request dispatcher.

// VH_C18_prefixes: for every encodable TCP request, every prefix shorter than 8 bytes is "too short" and every
// longer prefix (and the whole frame) is classified with the frame's true length.
func VH_C18_prefixes() {
	sel := vndParam("sel")
	o := vhBuild(sel, true, vndParam("p"))
	if o.err != nil {
		return
	}
	allow := vndBool("allowUnsupported")
	b := o.req.Bytes()
	total := len(b)
	vndCover("encoded")
	vndAssert(total == 6+(int(b[4])<<8|int(b[5])), "frame length is 6 plus the header's length field")
	for pl := 0; pl <= total; pl++ {
		n, err := LooksLikeModbusTCP(b[:pl], allow)
		if pl < 8 {
			vndAssert(err == ErrTCPDataTooShort, "prefix shorter than 8 bytes is reported as too short")
			continue
		}
		if err != nil && o.fc == 17 && errors.Is(err, ErrIsNotTCPPacket) && vndKnown("KF-C18-1") {
			vndKnownHit("KF-C18-1")
			return
		}
		vndAssert(err == nil, "prefix of 8 or more bytes is classified without error")
		vndAssert(n == total, "expected length equals the frame's true length")
	}
}

// VH_C18_agreement: whatever the classifier accepts with expected length n is, once exactly n bytes are there,
// parsed by the dispatcher or rejected with an error that encodes to a valid exception reply; unsupported
// function codes are classified as such with a matching illegal-function exception.
func VH_C18_agreement() {
	L := vndParam("L")
	frame := vndBytes("frame", L, 0)
	n, err := LooksLikeModbusTCP(frame, false)
	if err != nil {
		var pe *ErrorParseTCP
		if errors.As(err, &pe) && err != ErrTCPDataTooShort && err != ErrIsNotTCPPacket {
			vndCover("unsupported-function")
			vndAssert(L >= 8, "classification needs 8 bytes")
			vndAssert(n == 6+(int(frame[4])<<8|int(frame[5])), "unsupported function: expected length still 6 plus length field")
			supported := false
			for _, fc := range vhFCs {
				if frame[7] == fc {
					supported = true
				}
			}
			vndAssert(!supported, "only unsupported function codes are classified as unsupported")
			x := pe.Bytes()
			vndAssert(len(x) == 9 && x[0] == frame[0] && x[1] == frame[1] && x[2] == 0 && x[3] == 0 && x[4] == 0 && x[5] == 3 &&
				x[6] == frame[6] && x[8] == 1, "illegal-function exception (code 01) for the frame's transaction and unit")
			if frame[7] < 0x80 {
				// function codes 128..255 are not valid request function codes (the exception form of fc is fc+0x80,
				// which does not exist for them); the statement is judged on 1..127
				vndAssert(x[7] == frame[7]|0x80, "exception carries the frame's function code with the high bit set")
			}
		} else {
			vndCover("not-a-frame")
		}
		return
	}
	vndCover("classified")
	vndAssert(L >= 8 && n == 6+(int(frame[4])<<8|int(frame[5])), "expected length is 6 plus the header's length field")
	if n != L {
		return // the server would wait for more bytes / take a prefix; judged at n == L
	}
	vndCover("complete-frame")
	req, perr := ParseTCPRequest(frame)
	if perr == nil {
		vndAssert(req != nil && !vndIsNilPtr(req), "accepted request is a value")
		return
	}
	vndCover("dispatcher-rejects")
	var pe *ErrorParseTCP
	ok := errors.As(perr, &pe)
	vndAssert(ok, "dispatcher error can be encoded as an exception reply")
	if ok {
		x := pe.Bytes()
		vndAssert(len(x) == 9 && x[2] == 0 && x[3] == 0 && x[4] == 0 && x[5] == 3, "exception reply is a 9-byte ADU with protocol id 0 and length 3")
		vndAssert(x[0] == frame[0] && x[1] == frame[1] && x[6] == frame[6], "exception reply echoes transaction id and unit id")
		vndAssert(x[7] == frame[7]|0x80 && x[8] >= 1 && x[8] <= 4, "exception reply carries the function code with the high bit set and a protocol exception code")
	}
}

//go:build verif

package packet

import "errors"

// C03 — CRC-16 is the Modbus CRC for every message and is enforced on RTU frames.

// ---- reference CRC step, computed by a different algorithm than the code under test ----
// T[v] = reflect16( remainder of (reflect8(v) << 8) divided MSB-first by x^16+x^15+x^2+1 (0x8005) ).
// refstep(crc, b) = (crc >> 8) ^ T[(crc ^ b) & 0xFF]   (the classic table-driven CRC-16/MODBUS update)

func vhReflect(v uint32, bits int) uint32 {
	r := uint32(0)
	for i := 0; i < bits; i++ {
		if v&(1<<uint(i)) != 0 {
			r |= 1 << uint(bits-1-i)
		}
	}
	return r
}

var vhCRCTable [256]uint16
var vhCRCTableReady bool

func vhBuildCRCTable() {
	if vhCRCTableReady {
		return
	}
	vhCRCTableReady = true
	t := &vhCRCTable
	for v := 0; v < 256; v++ {
		reg := vhReflect(uint32(v), 8) << 8
		for i := 0; i < 8; i++ {
			if reg&0x8000 != 0 {
				reg = (reg << 1) ^ 0x8005
			} else {
				reg <<= 1
			}
			reg &= 0xFFFF
		}
		t[v] = uint16(vhReflect(reg, 16))
	}
}

func vhRefStep(crc uint16, b byte) uint16 {
	vhBuildCRCTable()
	return (crc >> 8) ^ vhCRCTable[(crc^uint16(b))&0xFF]
}

func vhRefCRC(data []byte) uint16 {
	crc := uint16(0xFFFF)
	for _, b := range data {
		crc = vhRefStep(crc, b)
	}
	return crc
}

// VH_C03_table_selfcheck: the reference agrees with the published check value CRC("123456789") = 0x4B37
// and with the example frame in the code's own documentation (01 04 02 FF FF -> 0x80B8).
func VH_C03_table_selfcheck() {
	vndCover("selfcheck")
	vndAssert(vhRefCRC([]byte("123456789")) == 0x4B37, "reference CRC check value 0x4B37")
	vndAssert(vhRefCRC([]byte{0x01, 0x04, 0x02, 0xFF, 0xFF}) == 0x80B8, "reference CRC of the documented example frame")
	vndAssert(CRC16([]byte("123456789")) == 0x4B37, "CRC16 check value 0x4B37")
	vndAssert(CRC16([]byte{0x01, 0x04, 0x02, 0xFF, 0xFF}) == 0x80B8, "CRC16 of the documented example frame")
}

// VH_C03_crc_step: k=1 induction on CRC16's byte loop. From an ARBITRARY loop state (crc, index i) over a buffer
// of n symbolic bytes, one trip through the real loop body (executed from the loop header, see vndLoopStepCRC16)
// either returns the carried crc (when no byte is left) or arrives back at the header with
// (refstep(crc, data[i+1]), i+1).
func VH_C03_crc_step() {
	n := vndParam("n")
	data := vndBytes("data", n, 0)
	crc := vndU16("crc")
	i := vndChoice("i", n+1) - 1 // -1 .. n-1
	crc2, i2, returned, ret := vndLoopStepCRC16(data, crc, i)
	if i+1 >= n {
		vndCover("exit")
		vndAssert(returned, "loop exits when every byte has been consumed")
		vndAssert(ret == crc, "the carried state is the result")
		return
	}
	vndCover("step")
	vndAssert(!returned, "loop continues while bytes remain")
	vndAssert(i2 == i+1, "index advances by one")
	vndAssert(crc2 == vhRefStep(crc, data[i+1]), "state update equals the reference CRC-16/MODBUS step")
}

// VH_C03_crc_whole: bounded whole-function comparison (base case of the induction included: initial value 0xFFFF).
func VH_C03_crc_whole() {
	n := vndParam("n")
	data := vndBytes("data", n, 4)
	vndCover("whole")
	vndAssert(CRC16(data) == vhRefCRC(data), "CRC16 equals the reference fold")
}

// ---- every emitted RTU frame ends with the CRC of what precedes it, low byte first ----

func vhRTUFrame(sel int, p int, q int) []byte {
	unit := vndU8("unit")
	a1, a2, a3, a4 := vndU16("a1"), vndU16("a2"), vndU16("a3"), vndU16("a4")
	flag := vndBool("flag")
	data := vndBytes("payload", p, 0)
	extra := vndBytes("extra", q, 0)
	u8 := vndU8("u8")
	blen := uint8(p) // byte-length fields are what the parsers/servers put there: the payload length
	if sel == 10 || sel == 11 || sel == 12 || sel == 13 || sel == 19 {
		// ... or, for a response built by a handler, a byte count that announces q more bytes than the payload holds
		// (the encoder then pads with zeros): the trailer must still be the CRC of everything before it
		blen = uint8(p + q)
	}
	switch sel {
	case 0:
		return ReadCoilsRequestRTU{ReadCoilsRequest{UnitID: unit, StartAddress: a1, Quantity: a2}}.Bytes()
	case 1:
		return ReadDiscreteInputsRequestRTU{ReadDiscreteInputsRequest{UnitID: unit, StartAddress: a1, Quantity: a2}}.Bytes()
	case 2:
		return ReadHoldingRegistersRequestRTU{ReadHoldingRegistersRequest{UnitID: unit, StartAddress: a1, Quantity: a2}}.Bytes()
	case 3:
		return ReadInputRegistersRequestRTU{ReadInputRegistersRequest{UnitID: unit, StartAddress: a1, Quantity: a2}}.Bytes()
	case 4:
		return WriteSingleCoilRequestRTU{WriteSingleCoilRequest{UnitID: unit, Address: a1, CoilState: flag}}.Bytes()
	case 5:
		return WriteSingleRegisterRequestRTU{WriteSingleRegisterRequest{UnitID: unit, Address: a1, Data: [2]byte{byte(a2 >> 8), byte(a2)}}}.Bytes()
	case 6:
		return WriteMultipleCoilsRequestRTU{WriteMultipleCoilsRequest{UnitID: unit, StartAddress: a1, CoilCount: a2, Data: data}}.Bytes()
	case 7:
		return WriteMultipleRegistersRequestRTU{WriteMultipleRegistersRequest{UnitID: unit, StartAddress: a1, RegisterCount: a2, Data: data}}.Bytes()
	case 8:
		return ReadServerIDRequestRTU{ReadServerIDRequest{UnitID: unit}}.Bytes()
	case 9:
		return ReadWriteMultipleRegistersRequestRTU{ReadWriteMultipleRegistersRequest{UnitID: unit, ReadStartAddress: a1, ReadQuantity: a2, WriteStartAddress: a3, WriteQuantity: a4, WriteData: data}}.Bytes()
	case 10:
		return ReadCoilsResponseRTU{ReadCoilsResponse{UnitID: unit, CoilsByteLength: blen, Data: data}}.Bytes()
	case 11:
		return ReadDiscreteInputsResponseRTU{ReadDiscreteInputsResponse{UnitID: unit, InputsByteLength: blen, Data: data}}.Bytes()
	case 12:
		return ReadHoldingRegistersResponseRTU{ReadHoldingRegistersResponse{UnitID: unit, RegisterByteLen: blen, Data: data}}.Bytes()
	case 13:
		return ReadInputRegistersResponseRTU{ReadInputRegistersResponse{UnitID: unit, RegisterByteLen: blen, Data: data}}.Bytes()
	case 14:
		return WriteSingleCoilResponseRTU{WriteSingleCoilResponse{UnitID: unit, StartAddress: a1, CoilState: flag}}.Bytes()
	case 15:
		return WriteSingleRegisterResponseRTU{WriteSingleRegisterResponse{UnitID: unit, Address: a1, Data: [2]byte{byte(a2 >> 8), byte(a2)}}}.Bytes()
	case 16:
		return WriteMultipleCoilsResponseRTU{WriteMultipleCoilsResponse{UnitID: unit, StartAddress: a1, CoilCount: a2}}.Bytes()
	case 17:
		return WriteMultipleRegistersResponseRTU{WriteMultipleRegistersResponse{UnitID: unit, StartAddress: a1, RegisterCount: a2}}.Bytes()
	case 18:
		return ReadServerIDResponseRTU{ReadServerIDResponse{UnitID: unit, Status: u8, ServerID: data, AdditionalData: extra}}.Bytes()
	case 19:
		return ReadWriteMultipleRegistersResponseRTU{ReadWriteMultipleRegistersResponse{UnitID: unit, RegisterByteLen: blen, Data: data}}.Bytes()
	case 20:
		return ErrorResponseRTU{UnitID: unit, Function: u8, Code: byte(a1)}.Bytes()
	}
	vndAssume(false)
	return nil
}

// VH_C03_frame_trailer: the frame's last two bytes are CRC16 (shown equal to the Modbus CRC by the step lemma of
// this same check) of EXACTLY the bytes before them, low byte first.
func VH_C03_frame_trailer() {
	sel := vndParam("sel")
	b := vhRTUFrame(sel, vndParam("p"), vndParam("q"))
	n := len(b)
	vndAssert(n >= 4, "an RTU frame has at least unit, function and CRC")
	vndCover("frame")
	want := CRC16(b[:n-2])
	vndAssert(b[n-2] == byte(want) && b[n-1] == byte(want>>8), "trailer is the CRC of all preceding bytes, low byte first")
}

// ---- the CRC-verifying parse entry points accept iff the trailer matches ----

func VH_C03_withcrc() {
	which := vndParam("which") // 0 = request parser, 1 = response parser
	L := vndParam("L")
	frame := vndBytes("frame", L, 0)
	var got interface{}
	var err error
	if which == 0 {
		got, err = ParseRTURequestWithCRC(frame)
	} else {
		got, err = ParseRTUResponseWithCRC(frame)
	}
	if L < 4 {
		vndCover("too-short")
		vndAssert(err != nil, "frames shorter than 4 bytes are rejected")
		return
	}
	want := CRC16(frame[:L-2])
	trailer := uint16(frame[L-2]) | uint16(frame[L-1])<<8
	if trailer != want {
		vndCover("bad-crc")
		vndAssert(err != nil, "a frame whose trailer is not the CRC of the rest is rejected")
		vndAssert(errors.Is(err, ErrInvalidCRC), "and the error is ErrInvalidCRC")
		return
	}
	vndCover("good-crc")
	vndAssert(!errors.Is(err, ErrInvalidCRC), "a frame with a matching trailer is not rejected for its CRC")
	// same outcome as the non-verifying parser on the same bytes
	var plain interface{}
	var perr error
	if which == 0 {
		plain, perr = ParseRTURequest(frame)
	} else {
		plain, perr = ParseRTUResponse(frame)
	}
	vndAssert((err == nil) == (perr == nil), "accepts exactly when the non-verifying parser accepts")
	vndAssert(vndDeepEqual(got, plain), "decodes to the same value as the non-verifying parser")
}

// VH_C03_reemit: a frame emitted from a value that came off the wire (not from a constructor: padding bits, byte
// counts and fields are whatever the sender put there) still ends with the CRC of the bytes before it. Run with the
// CRC abstraction (counterexamples are refined against the real CRC16).
func VH_C03_reemit() {
	which := vndParam("which") // 0 = request parser, 1 = response parser
	L := vndParam("L")
	frame := vndBytes("frame", L, 0)
	var out []byte
	if which == 0 {
		got, err := ParseRTURequestWithCRC(frame)
		if err != nil {
			return
		}
		out = got.Bytes()
	} else {
		got, err := ParseRTUResponseWithCRC(frame)
		if err != nil {
			return
		}
		out = got.Bytes()
	}
	n := len(out)
	vndCover("re-emitted")
	vndAssert(n >= 4, "a re-emitted RTU frame has at least unit, function and CRC")
	if n >= 4 {
		w := CRC16(out[:n-2])
		vndAssert(out[n-2] == byte(w) && out[n-1] == byte(w>>8), "a frame re-emitted from a parsed value ends with the CRC of all preceding bytes, low byte first")
	}
}

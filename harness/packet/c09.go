//go:build verif

package packet

// C09 — legal requests survive encode -> parse unchanged; frames outside the specification's limits are refused.

func vhParsePerFunction(sel int, tcp bool, data []byte) (Request, error) {
	switch {
	case sel == 0 && tcp:
		r, e := ParseReadCoilsRequestTCP(data)
		if e != nil {
			return nil, e
		}
		return r, nil
	case sel == 0:
		r, e := ParseReadCoilsRequestRTU(data)
		if e != nil {
			return nil, e
		}
		return r, nil
	case sel == 1 && tcp:
		r, e := ParseReadDiscreteInputsRequestTCP(data)
		if e != nil {
			return nil, e
		}
		return r, nil
	case sel == 1:
		r, e := ParseReadDiscreteInputsRequestRTU(data)
		if e != nil {
			return nil, e
		}
		return r, nil
	case sel == 2 && tcp:
		r, e := ParseReadHoldingRegistersRequestTCP(data)
		if e != nil {
			return nil, e
		}
		return r, nil
	case sel == 2:
		r, e := ParseReadHoldingRegistersRequestRTU(data)
		if e != nil {
			return nil, e
		}
		return r, nil
	case sel == 3 && tcp:
		r, e := ParseReadInputRegistersRequestTCP(data)
		if e != nil {
			return nil, e
		}
		return r, nil
	case sel == 3:
		r, e := ParseReadInputRegistersRequestRTU(data)
		if e != nil {
			return nil, e
		}
		return r, nil
	case sel == 4 && tcp:
		r, e := ParseWriteSingleCoilRequestTCP(data)
		if e != nil {
			return nil, e
		}
		return r, nil
	case sel == 4:
		r, e := ParseWriteSingleCoilRequestRTU(data)
		if e != nil {
			return nil, e
		}
		return r, nil
	case sel == 5 && tcp:
		r, e := ParseWriteSingleRegisterRequestTCP(data)
		if e != nil {
			return nil, e
		}
		return r, nil
	case sel == 5:
		r, e := ParseWriteSingleRegisterRequestRTU(data)
		if e != nil {
			return nil, e
		}
		return r, nil
	case sel == 6 && tcp:
		r, e := ParseWriteMultipleCoilsRequestTCP(data)
		if e != nil {
			return nil, e
		}
		return r, nil
	case sel == 6:
		r, e := ParseWriteMultipleCoilsRequestRTU(data)
		if e != nil {
			return nil, e
		}
		return r, nil
	case sel == 7 && tcp:
		r, e := ParseWriteMultipleRegistersRequestTCP(data)
		if e != nil {
			return nil, e
		}
		return r, nil
	case sel == 7:
		r, e := ParseWriteMultipleRegistersRequestRTU(data)
		if e != nil {
			return nil, e
		}
		return r, nil
	case sel == 8 && tcp:
		r, e := ParseReadServerIDRequestTCP(data)
		if e != nil {
			return nil, e
		}
		return r, nil
	case sel == 8:
		r, e := ParseReadServerIDRequestRTU(data)
		if e != nil {
			return nil, e
		}
		return r, nil
	case sel == 9 && tcp:
		r, e := ParseReadWriteMultipleRegistersRequestTCP(data)
		if e != nil {
			return nil, e
		}
		return r, nil
	}
	r, e := ParseReadWriteMultipleRegistersRequestRTU(data)
	if e != nil {
		return nil, e
	}
	return r, nil
}

// vhC09Parsed judges one parse of the library's own encoding of a legal request.
func vhC09Parsed(o vhBuilt, b []byte, got Request, err error, label string) {
	if err != nil && (o.fc == 1 || o.fc == 2) && o.qty >= 126 && o.qty <= 2000 && vndKnown("KF-C09-1") {
		vndKnownHit("KF-C09-1")
		return
	}
	vndAssert(err == nil, label+": the library's own legal request is accepted")
	if err != nil {
		return
	}
	vndAssert(vndDeepEqual(got, o.req), label+": decodes to a request equal to the original")
	vndAssert(vhEqualBytes(got.Bytes(), b), label+": re-encodes to the same bytes")
}

func VH_C09_roundtrip() {
	sel := vndParam("sel")
	tcp := vndParam("tcp") == 1
	o := vhBuild(sel, tcp, vndParam("p"))
	if o.err != nil {
		return
	}
	vndAssume(o.legal) // the statement is about requests that are legal under the specification
	vndCover("legal-request")
	b := o.req.Bytes()
	n := len(b)
	if tcp {
		got, err := ParseTCPRequest(b)
		vhC09Parsed(o, b, got, err, "ParseTCPRequest")
		got, err = vhParsePerFunction(sel, true, b)
		vhC09Parsed(o, b, got, err, "per-function TCP parser")
		return
	}
	got, err := ParseRTURequest(b)
	vhC09Parsed(o, b, got, err, "ParseRTURequest")
	g2, err := ParseRTURequestWithCRC(b)
	var asReq Request
	if err == nil {
		asReq = g2.(Request)
	}
	vhC09Parsed(o, b, asReq, err, "ParseRTURequestWithCRC")
	got, err = vhParsePerFunction(sel, false, b)
	vhC09Parsed(o, b, got, err, "per-function RTU parser (with CRC trailer)")
	got, err = vhParsePerFunction(sel, false, b[:n-2])
	vhC09Parsed(o, b, got, err, "per-function RTU parser (without CRC trailer)")
}

// vhWithinLimits: the specification's limits for the request PDU starting at pdu[0] = function code.
func vhWithinLimits(pdu []byte) bool {
	if len(pdu) < 1 {
		return false
	}
	u16 := func(i int) int { return int(pdu[i])<<8 | int(pdu[i+1]) }
	switch pdu[0] {
	case 1, 2:
		return len(pdu) >= 5 && u16(3) >= 1 && u16(3) <= 2000
	case 3, 4:
		return len(pdu) >= 5 && u16(3) >= 1 && u16(3) <= 125
	case 5:
		return len(pdu) >= 5 && (u16(3) == 0xFF00 || u16(3) == 0x0000)
	case 6:
		return len(pdu) >= 5
	case 15:
		return len(pdu) >= 6 && u16(3) >= 1 && u16(3) <= 1968
	case 16:
		return len(pdu) >= 6 && u16(3) >= 1 && u16(3) <= 123
	case 17:
		return true
	case 23:
		return len(pdu) >= 10 && u16(3) >= 1 && u16(3) <= 125 && u16(7) >= 1 && u16(7) <= 121
	}
	return false
}

// VH_C09_refuse: whatever a request parser accepts is within the specification's limits.
func VH_C09_refuse() {
	which := vndParam("which") // 0 ParseTCPRequest, 1 ParseRTURequest, 2.. per-function (sel = which-2, tcp by param)
	L := vndParam("L")
	frame := vndBytes("frame", L, 0)
	var err error
	tcp := vndParam("tcp") == 1
	switch which {
	case 0:
		_, err = ParseTCPRequest(frame)
		tcp = true
	case 1:
		_, err = ParseRTURequest(frame)
		tcp = false
	default:
		_, err = vhParsePerFunction(which-2, tcp, frame)
	}
	if err != nil {
		vndCover("refused")
		return
	}
	vndCover("accepted")
	if tcp {
		vndAssert(L >= 8 && vhWithinLimits(frame[7:]), "accepted TCP request is within the specification's limits")
	} else {
		vndAssert(L >= 2 && vhWithinLimits(frame[1:]), "accepted RTU request is within the specification's limits")
	}
}

//go:build verif

package packet

// C11 — coil lookup follows the Modbus bit layout (coil i = bit i%8 of byte i/8).

func VH_C11_isBitSet_layout() {
	n := vndParam("n")
	data := vndBytes("data", n, 8)
	start := vndU16("start")
	addr := vndU16("addr")
	got, err := isBitSet(data, start, addr)
	i := int(addr) - int(start)
	if i < 0 || i >= 8*n {
		vndCover("outside-window")
		vndAssert(err != nil, "outside window must be an error")
		return
	}
	vndCover("in-window")
	vndAssert(err == nil, "inside window must succeed")
	want := data[i/8]>>(uint(i)%8)&1 == 1
	if got != want {
		if vndKnown("KF-C11-1") {
			if got == (data[n-1-i/8]>>(uint(i)%8)&1 == 1) {
				vndKnownHit("KF-C11-1")
				return
			}
		}
	}
	vndAssert(got == want, "coil i is bit i%8 of byte i/8")
}

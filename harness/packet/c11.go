//go:build verif

package packet

// C11 — coil lookup follows the Modbus bit layout (coil i = bit i%8 of byte i/8).

func VH_C11_isBitSet_layout() {
	n := vndParam("n")
	data := vndBytes("data", n, 8)
	start := vndU16("start")
	addr := vndU16("addr")
	got, err := isBitSet(data, start, addr)
	i := int(addr) - int(start)
	if i < 0 || i >= 8*n {
		vndCover("outside-window")
		vndAssert(err != nil, "outside window must be an error")
		return
	}
	vndCover("in-window")
	vndAssert(err == nil, "inside window must succeed")
	want := data[i/8]>>(uint(i)%8)&1 == 1
	if got != want {
		if vndKnown("KF-C11-1") {
			if got == (data[n-1-i/8]>>(uint(i)%8)&1 == 1) {
				vndKnownHit("KF-C11-1")
				return
			}
		}
	}
	vndAssert(got == want, "coil i is bit i%8 of byte i/8")
}

// VH_C11_packing: the library's write-side packing follows the same layout the lookup must invert:
// coil i of a write-multiple-coils request is bit i%8 of data byte i/8, unused bits are zero.
func VH_C11_packing() {
	n := vndParam("n")
	coils := vndBools("coils", n)
	b := CoilsToBytes(coils)
	vndCover("packed")
	vndAssert(len(b) == (n+7)/8, "ceil(n/8) data bytes")
	ok := true
	for i := 0; i < 8*len(b); i++ {
		bit := b[i/8]>>(uint(i)%8)&1 == 1
		want := i < n && coils[i]
		if bit != want {
			ok = false
		}
	}
	vndAssert(ok, "coil i is bit i%8 of byte i/8 and padding bits are zero")
}

//go:build verif

package packet

import "math"

// C04 / C13 — typed register access.
//
// The oracle below is written from the documentation of the byte/word order flags in registers.go
// (and the Modbus rule that a register is two bytes, high byte first on the wire); it works in int
// arithmetic on the wire bytes, independently of the accessor code.

const vhAccessors = 23

var vhAccessorNames = []string{
	"Register", "DoubleRegister", "QuadRegister", "Bit", "Byte", "Uint8", "Int8", "Uint16", "Int16",
	"Uint32", "Uint32WithByteOrder", "Int32", "Int32WithByteOrder", "Uint64", "Uint64WithByteOrder",
	"Int64", "Int64WithByteOrder", "Float32", "Float32WithByteOrder", "Float64", "Float64WithByteOrder",
	"String", "StringWithByteOrder",
}

type vhWindow struct {
	n       int // registers
	payload []byte
	wire    []byte // copy of the payload taken before any accessor runs (what was on the wire)
	start   uint16
	def     ByteOrder
	regs    *Registers
}

type vhArgs struct {
	off    int // int(addr) - int(start); concrete when the offset is case-split
	addr   uint16
	order  ByteOrder
	bit    uint8
	high   bool
	length uint8
}

type vhResult struct {
	ok bool
	v  uint64
	s  string
}

func vhSetupWindow() vhWindow {
	var w vhWindow
	w.n = vndParam("n")
	w.payload = vndBytes("payload", 2*w.n, 16) // 16 symbolic junk bytes of spare capacity
	w.wire = make([]byte, 2*w.n)
	copy(w.wire, w.payload)
	w.start = vndU16("start")
	vndAssume(int(w.start)+w.n <= 65536)
	regs, err := NewRegisters(w.payload, w.start)
	vndAssert(err == nil && regs != nil, "NewRegisters accepts a payload of whole registers")
	w.regs = regs
	w.def = BigEndianHighWordFirst
	if vndBool("setDefaultOrder") {
		w.def = ByteOrder(vndU8("defaultOrder"))
		w.regs.WithByteOrder(w.def)
	}
	return w
}

// vhArguments: the string length is case-split (concrete per query); byte order, bit and high/low are symbolic.
// The requested address is symbolic over all 65536 values; in mode 1 its position relative to the (symbolic)
// window start is case-split so that payload indices are concrete: k in 0..n => address = start+k (no wrap),
// k = n+1 => any address below the window, k = n+2 => any address more than n above the start (incl. wrap-around).
func vhArguments(w vhWindow) vhArgs {
	a := vhArgs{order: ByteOrder(vndU8("order")), bit: vndU8("bit"), high: vndBool("high"), length: uint8(vndParam("len"))}
	if vndParam("mode") == 0 {
		a.addr = vndU16("addr")
		a.off = int(a.addr) - int(w.start)
		return a
	}
	k := vndChoice("offset", w.n+3)
	switch {
	case k <= w.n:
		vndAssume(int(w.start)+k <= 65535)
		a.addr = w.start + uint16(k)
		a.off = k
	case k == w.n+1:
		a.addr = vndU16("addr")
		vndAssume(a.addr < w.start)
		a.off = int(a.addr) - int(w.start)
	default:
		a.addr = vndU16("addr")
		vndAssume(int(a.addr) > int(w.start)+w.n)
		a.off = int(a.addr) - int(w.start)
	}
	return a
}

// vhCall invokes accessor number sel and normalises its result.
func vhCall(sel int, r *Registers, a vhArgs) vhResult {
	switch sel {
	case 0:
		b, err := r.Register(a.addr)
		if err != nil {
			return vhResult{}
		}
		vndAssert(len(b) == 2, "Register returns 2 bytes")
		return vhResult{ok: true, v: uint64(b[0])<<8 | uint64(b[1])}
	case 1:
		b, err := r.DoubleRegister(a.addr, a.order)
		if err != nil {
			return vhResult{}
		}
		vndAssert(len(b) == 4, "DoubleRegister returns 4 bytes")
		return vhResult{ok: true, v: uint64(b[0])<<24 | uint64(b[1])<<16 | uint64(b[2])<<8 | uint64(b[3])}
	case 2:
		b, err := r.QuadRegister(a.addr, a.order)
		if err != nil {
			return vhResult{}
		}
		vndAssert(len(b) == 8, "QuadRegister returns 8 bytes")
		v := uint64(0)
		for i := 0; i < 8; i++ {
			v = v<<8 | uint64(b[i])
		}
		return vhResult{ok: true, v: v}
	case 3:
		b, err := r.Bit(a.addr, a.bit)
		if err != nil {
			return vhResult{}
		}
		if b {
			return vhResult{ok: true, v: 1}
		}
		return vhResult{ok: true}
	case 4:
		b, err := r.Byte(a.addr, a.high)
		return vhResult{ok: err == nil, v: uint64(b)}
	case 5:
		b, err := r.Uint8(a.addr, a.high)
		return vhResult{ok: err == nil, v: uint64(b)}
	case 6:
		b, err := r.Int8(a.addr, a.high)
		return vhResult{ok: err == nil, v: uint64(uint8(b))}
	case 7:
		b, err := r.Uint16(a.addr)
		return vhResult{ok: err == nil, v: uint64(b)}
	case 8:
		b, err := r.Int16(a.addr)
		return vhResult{ok: err == nil, v: uint64(uint16(b))}
	case 9:
		b, err := r.Uint32(a.addr)
		return vhResult{ok: err == nil, v: uint64(b)}
	case 10:
		b, err := r.Uint32WithByteOrder(a.addr, a.order)
		return vhResult{ok: err == nil, v: uint64(b)}
	case 11:
		b, err := r.Int32(a.addr)
		return vhResult{ok: err == nil, v: uint64(uint32(b))}
	case 12:
		b, err := r.Int32WithByteOrder(a.addr, a.order)
		return vhResult{ok: err == nil, v: uint64(uint32(b))}
	case 13:
		b, err := r.Uint64(a.addr)
		return vhResult{ok: err == nil, v: b}
	case 14:
		b, err := r.Uint64WithByteOrder(a.addr, a.order)
		return vhResult{ok: err == nil, v: b}
	case 15:
		b, err := r.Int64(a.addr)
		return vhResult{ok: err == nil, v: uint64(b)}
	case 16:
		b, err := r.Int64WithByteOrder(a.addr, a.order)
		return vhResult{ok: err == nil, v: uint64(b)}
	case 17:
		b, err := r.Float32(a.addr)
		return vhResult{ok: err == nil, v: uint64(math.Float32bits(b))}
	case 18:
		b, err := r.Float32WithByteOrder(a.addr, a.order)
		return vhResult{ok: err == nil, v: uint64(math.Float32bits(b))}
	case 19:
		b, err := r.Float64(a.addr)
		return vhResult{ok: err == nil, v: math.Float64bits(b)}
	case 20:
		b, err := r.Float64WithByteOrder(a.addr, a.order)
		return vhResult{ok: err == nil, v: math.Float64bits(b)}
	case 21:
		s, err := r.String(a.addr, a.length)
		return vhResult{ok: err == nil, s: s}
	case 22:
		s, err := r.StringWithByteOrder(a.addr, a.length, a.order)
		return vhResult{ok: err == nil, s: s}
	}
	vndAssume(false)
	return vhResult{}
}

// ---- the oracle ----

// vhKind: how many registers an accessor touches, whether it takes an explicit order.
func vhRegsOf(sel int) int {
	switch sel {
	case 0, 3, 4, 5, 6, 7, 8:
		return 1
	case 1, 9, 10, 11, 12, 17, 18:
		return 2
	case 2, 13, 14, 15, 16, 19, 20:
		return 4
	}
	return 0
}

func vhTakesOrder(sel int) bool {
	switch sel {
	case 1, 2, 10, 12, 14, 16, 18, 20, 22:
		return true
	}
	return false
}

// vhEffectiveOrder: the explicit order if given (and not "use default"), else the window's default.
// Register/DoubleRegister/QuadRegister take the order literally (0 = high word first).
func vhEffectiveOrder(sel int, w vhWindow, a vhArgs) ByteOrder {
	if sel == 1 || sel == 2 {
		return a.order
	}
	if vhTakesOrder(sel) && a.order != 0 {
		return a.order
	}
	return w.def
}

// vhWire returns the k*2 wire bytes of the access in register order, reversed register-wise for low-word-first.
func vhWire(w vhWindow, a vhArgs, k int, order ByteOrder) [8]byte {
	var out [8]byte
	base := 2 * a.off
	for r := 0; r < k; r++ {
		// both candidates are read with order-independent indices; the word order only selects between them
		hi, lo := w.wire[base+2*r], w.wire[base+2*r+1]
		rhi, rlo := w.wire[base+2*(k-1-r)], w.wire[base+2*(k-1-r)+1]
		if order&LowWordFirst != 0 {
			hi, lo = rhi, rlo
		}
		out[2*r] = hi
		out[2*r+1] = lo
	}
	return out
}

func vhExpectNumber(sel int, w vhWindow, a vhArgs) uint64 {
	k := vhRegsOf(sel)
	order := vhEffectiveOrder(sel, w, a)
	b := vhWire(w, a, k, order)
	switch sel {
	case 3: // Bit: bit 0..15 of the big-endian register value
		v := uint16(b[0])<<8 | uint16(b[1])
		return uint64(v>>a.bit) & 1
	case 4, 5, 6:
		if a.high {
			return uint64(b[0])
		}
		return uint64(b[1])
	case 0, 1, 2: // raw bytes, no endianness applied
		v := uint64(0)
		for i := 0; i < 2*k; i++ {
			v = v<<8 | uint64(b[i])
		}
		return v
	}
	v := uint64(0)
	if order&LittleEndian != 0 {
		for i := 2*k - 1; i >= 0; i-- {
			v = v<<8 | uint64(b[i])
		}
	} else {
		for i := 0; i < 2*k; i++ {
			v = v<<8 | uint64(b[i])
		}
	}
	return v
}

// vhExpectString: length bytes starting at the register, pairs swapped when the order has the BigEndian flag, cut at NUL.
func vhExpectString(w vhWindow, a vhArgs, order ByteOrder) string {
	base := 2 * a.off
	s := ""
	for i := 0; i < int(a.length); i++ {
		c := w.wire[base+i]
		sw := w.wire[base+(i^1)]
		if order&BigEndian != 0 {
			c = sw
		}
		if c == 0 {
			break
		}
		s += string(rune(c))
	}
	return s
}

func vhInWindow(sel int, w vhWindow, a vhArgs) bool {
	if sel >= 21 {
		bytes := int(a.length)
		if bytes%2 != 0 {
			bytes++
		}
		return a.off >= 0 && 2*a.off+bytes <= 2*w.n
	}
	return a.off >= 0 && a.off+vhRegsOf(sel) <= w.n
}

func VH_C04_accessor() {
	sel := vndParam("sel")
	w := vhSetupWindow()
	a := vhArguments(w)
	if sel == 3 {
		vndAssume(a.bit <= 15) // bit numbers above 15 are covered by VH_C04_bit_range
	}
	got := vhCall(sel, w.regs, a)
	if !vhInWindow(sel, w, a) {
		vndCover("outside-window")
		vndAssert(!got.ok, "access not fully inside the window must be an error")
		return
	}
	vndCover("inside-window")
	vndAssert(got.ok, "access inside the window must succeed")
	if sel >= 21 {
		order := w.def
		if sel == 22 && a.order != 0 {
			order = a.order
		}
		vndAssert(got.s == vhExpectString(w, a, order), "string equals the addressed wire bytes")
		return
	}
	vndAssert(got.v == vhExpectNumber(sel, w, a), "value equals the addressed wire bytes in the selected order")
}

func VH_C04_bit_range() {
	w := vhSetupWindow()
	a := vhArguments(w)
	vndAssume(a.bit > 15)
	_, err := w.regs.Bit(a.addr, a.bit)
	vndCover("bit>15")
	vndAssert(err != nil, "bit number above 15 must be an error")
}

// ---- C13: reading never changes the response ----

func VH_C13_accessor_pure() {
	sel := vndParam("sel")
	w := vhSetupWindow()
	a := vhArguments(w)
	full := w.payload[:cap(w.payload)]
	snap := make([]byte, len(full))
	copy(snap, full)
	before := *w.regs
	r1 := vhCall(sel, w.regs, a)
	same := true
	for i := range full {
		if full[i] != snap[i] {
			same = false
		}
	}
	vndCover("called")
	vndAssert(same, "payload bytes (and spare capacity) unchanged by the read")
	after := *w.regs
	vndAssert(before.startAddress == after.startAddress && before.endAddress == after.endAddress && before.defaultByteOrder == after.defaultByteOrder,
		"Registers view unchanged by the read")
	r2 := vhCall(sel, w.regs, a)
	vndAssert(r1.ok == r2.ok && r1.v == r2.v && r1.s == r2.s, "repeating the read gives the same result")
}

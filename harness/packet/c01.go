//go:build verif

package packet

// C01 / C09 / C18(A) — request encoders against the Modbus Application Protocol V1.1b3 layout, and
// encode -> parse round trips.
//
// vhBuild constructs request number sel (0..9 = FC 1,2,3,4,5,6,15,16,17,23) through the library's constructor
// with symbolic arguments and returns, next to it, the ADU the specification prescribes for those arguments
// (written here from the spec, not from the encoders) and whether the arguments are legal under the spec limits.

var vhFCs = []uint8{1, 2, 3, 4, 5, 6, 15, 16, 17, 23}

type vhBuilt struct {
	req   Request
	err   error
	spec  []byte // specification ADU for the arguments (valid when err == nil)
	legal bool   // arguments within the specification's limits
	fc    uint8
	tid   uint16
	unit  uint8
	qty   int // the quantity-like argument (coils/registers), for the known-finding predicates
	wqty  int
}

func vhBE(v uint16) (byte, byte) { return byte(v >> 8), byte(v) }

func vhSpecADU(tcp bool, tid uint16, unit uint8, pdu []byte) []byte {
	if tcp {
		n := len(pdu) + 1
		out := []byte{byte(tid >> 8), byte(tid), 0, 0, byte(n >> 8), byte(n), unit}
		return append(out, pdu...)
	}
	out := append([]byte{unit}, pdu...)
	crc := CRC16(out) // tied to the specification's CRC by check C03
	return append(out, byte(crc), byte(crc>>8))
}

func vhSetTID(req Request, tid uint16) {
	switch r := req.(type) {
	case *ReadCoilsRequestTCP:
		r.TransactionID = tid
	case *ReadDiscreteInputsRequestTCP:
		r.TransactionID = tid
	case *ReadHoldingRegistersRequestTCP:
		r.TransactionID = tid
	case *ReadInputRegistersRequestTCP:
		r.TransactionID = tid
	case *WriteSingleCoilRequestTCP:
		r.TransactionID = tid
	case *WriteSingleRegisterRequestTCP:
		r.TransactionID = tid
	case *WriteMultipleCoilsRequestTCP:
		r.TransactionID = tid
	case *WriteMultipleRegistersRequestTCP:
		r.TransactionID = tid
	case *ReadServerIDRequestTCP:
		r.TransactionID = tid
	case *ReadWriteMultipleRegistersRequestTCP:
		r.TransactionID = tid
	}
}

// vhBuild: p is the concrete payload size of the query (coil count for FC15, byte count for FC16/FC23).
func vhBuild(sel int, tcp bool, p int) vhBuilt {
	var o vhBuilt
	o.fc = vhFCs[sel]
	o.tid = vndU16("tid")
	o.unit = vndU8("unit")
	addr := vndU16("addr")
	qty := vndU16("qty")
	ah, al := vhBE(addr)
	qh, ql := vhBE(qty)
	var pdu []byte
	switch sel {
	case 0, 1, 2, 3: // read coils / discrete inputs / holding / input registers
		o.qty = int(qty)
		switch {
		case sel == 0 && tcp:
			r, e := NewReadCoilsRequestTCP(o.unit, addr, qty)
			o.err = e
			if e == nil {
				o.req = r
			}
		case sel == 0:
			r, e := NewReadCoilsRequestRTU(o.unit, addr, qty)
			o.err = e
			if e == nil {
				o.req = r
			}
		case sel == 1 && tcp:
			r, e := NewReadDiscreteInputsRequestTCP(o.unit, addr, qty)
			o.err = e
			if e == nil {
				o.req = r
			}
		case sel == 1:
			r, e := NewReadDiscreteInputsRequestRTU(o.unit, addr, qty)
			o.err = e
			if e == nil {
				o.req = r
			}
		case sel == 2 && tcp:
			r, e := NewReadHoldingRegistersRequestTCP(o.unit, addr, qty)
			o.err = e
			if e == nil {
				o.req = r
			}
		case sel == 2:
			r, e := NewReadHoldingRegistersRequestRTU(o.unit, addr, qty)
			o.err = e
			if e == nil {
				o.req = r
			}
		case sel == 3 && tcp:
			r, e := NewReadInputRegistersRequestTCP(o.unit, addr, qty)
			o.err = e
			if e == nil {
				o.req = r
			}
		default:
			r, e := NewReadInputRegistersRequestRTU(o.unit, addr, qty)
			o.err = e
			if e == nil {
				o.req = r
			}
		}
		pdu = []byte{o.fc, ah, al, qh, ql}
		if sel <= 1 {
			o.legal = qty >= 1 && qty <= 2000
		} else {
			o.legal = qty >= 1 && qty <= 125
		}
	case 4: // write single coil
		on := vndBool("on")
		if tcp {
			r, e := NewWriteSingleCoilRequestTCP(o.unit, addr, on)
			o.err = e
			if e == nil {
				o.req = r
			}
		} else {
			r, e := NewWriteSingleCoilRequestRTU(o.unit, addr, on)
			o.err = e
			if e == nil {
				o.req = r
			}
		}
		v := byte(0)
		if on {
			v = 0xFF
		}
		pdu = []byte{o.fc, ah, al, v, 0}
		o.legal = true
	case 5: // write single register
		val := vndBytes("value", 2, 0)
		if tcp {
			r, e := NewWriteSingleRegisterRequestTCP(o.unit, addr, val)
			o.err = e
			if e == nil {
				o.req = r
			}
		} else {
			r, e := NewWriteSingleRegisterRequestRTU(o.unit, addr, val)
			o.err = e
			if e == nil {
				o.req = r
			}
		}
		pdu = []byte{o.fc, ah, al, val[0], val[1]}
		o.legal = true
	case 6: // write multiple coils: p coils
		coils := vndBools("coils", p)
		o.qty = p
		if tcp {
			r, e := NewWriteMultipleCoilsRequestTCP(o.unit, addr, coils)
			o.err = e
			if e == nil {
				o.req = r
			}
		} else {
			r, e := NewWriteMultipleCoilsRequestRTU(o.unit, addr, coils)
			o.err = e
			if e == nil {
				o.req = r
			}
		}
		nb := (p + 7) / 8
		pdu = make([]byte, 6+nb)
		pdu[0], pdu[1], pdu[2] = o.fc, ah, al
		pdu[3], pdu[4] = byte(p>>8), byte(p)
		pdu[5] = byte(nb)
		for i := 0; i < p; i++ { // coil i = bit i%8 of byte i/8, unused bits zero
			if coils[i] {
				pdu[6+i/8] |= 1 << uint(i%8)
			}
		}
		o.legal = p >= 1 && p <= 1968
	case 7: // write multiple registers: p data bytes
		data := vndBytes("data", p, 0)
		o.qty = p / 2
		if tcp {
			r, e := NewWriteMultipleRegistersRequestTCP(o.unit, addr, data)
			o.err = e
			if e == nil {
				o.req = r
			}
		} else {
			r, e := NewWriteMultipleRegistersRequestRTU(o.unit, addr, data)
			o.err = e
			if e == nil {
				o.req = r
			}
		}
		pdu = append([]byte{o.fc, ah, al, byte((p / 2) >> 8), byte(p / 2), byte(p)}, data...)
		o.legal = p%2 == 0 && p/2 >= 1 && p/2 <= 123
	case 8: // read server id
		if tcp {
			r, e := NewReadServerIDRequestTCP(o.unit)
			o.err = e
			if e == nil {
				o.req = r
			}
		} else {
			r, e := NewReadServerIDRequestRTU(o.unit)
			o.err = e
			if e == nil {
				o.req = r
			}
		}
		pdu = []byte{o.fc}
		o.legal = true
	case 9: // read/write multiple registers: p write-data bytes
		waddr := vndU16("waddr")
		data := vndBytes("data", p, 0)
		o.qty = int(qty)
		o.wqty = p / 2
		if tcp {
			r, e := NewReadWriteMultipleRegistersRequestTCP(o.unit, addr, qty, waddr, data)
			o.err = e
			if e == nil {
				o.req = r
			}
		} else {
			r, e := NewReadWriteMultipleRegistersRequestRTU(o.unit, addr, qty, waddr, data)
			o.err = e
			if e == nil {
				o.req = r
			}
		}
		wh, wl := vhBE(waddr)
		pdu = append([]byte{o.fc, ah, al, qh, ql, wh, wl, byte((p / 2) >> 8), byte(p / 2), byte(p)}, data...)
		o.legal = qty >= 1 && qty <= 125 && p%2 == 0 && p/2 >= 1 && p/2 <= 121
	default:
		vndAssume(false)
	}
	if o.err == nil {
		if tcp {
			vhSetTID(o.req, o.tid)
		}
		o.spec = vhSpecADU(tcp, o.tid, o.unit, pdu)
	}
	return o
}

func vhEqualBytes(a, b []byte) bool {
	if len(a) != len(b) {
		return false
	}
	same := true
	for i := range a {
		if a[i] != b[i] {
			same = false
		}
	}
	return same
}

func VH_C01_encode() {
	sel := vndParam("sel")
	tcp := vndParam("tcp") == 1
	o := vhBuild(sel, tcp, vndParam("p"))
	if o.err != nil {
		vndCover("constructor-rejects")
		return
	}
	vndCover("constructed")
	b := o.req.Bytes()
	vndAssert(len(b) == len(o.spec), "frame length equals the specification's ADU length")
	vndAssert(vhEqualBytes(b, o.spec), "frame bytes equal the specification's ADU")
	vndAssert(o.req.FunctionCode() == o.fc, "FunctionCode() reports the function of the frame")
	if !o.legal {
		// the library agreed to construct a request that the specification does not allow
		if o.fc == 16 && o.qty == 124 && vndKnown("KF-C01-1") {
			vndKnownHit("KF-C01-1")
			return
		}
		if o.fc == 23 && o.qty >= 1 && o.qty <= 124 && o.wqty >= 122 && o.wqty <= 124 && vndKnown("KF-C01-2") {
			vndKnownHit("KF-C01-2")
			return
		}
	}
	vndAssert(o.legal, "constructed request is within the specification's limits")
	if tcp {
		vndAssert(len(b) <= 260, "TCP ADU is at most 260 bytes")
	} else {
		vndAssert(len(b) <= 256, "RTU ADU is at most 256 bytes")
	}
}

// VH_C01_encode_twice: encoding is a function of the request alone - a request encoded after another one (same
// function, its own arbitrary arguments) still serializes to the specification's ADU, and encoding the first one
// again gives the same bytes as before (no state carried from one request to the next).
func VH_C01_encode_twice() {
	sel := vndParam("sel")
	tcp := vndParam("tcp") == 1
	first := vhBuild(sel, tcp, vndParam("p"))
	if first.err != nil {
		return
	}
	b1 := append([]byte{}, first.req.Bytes()...)
	second := vhBuild(sel, tcp, vndParam("p"))
	if second.err != nil {
		return
	}
	vndCover("second-constructed")
	b2 := second.req.Bytes()
	vndAssert(len(b2) == len(second.spec) && vhEqualBytes(b2, second.spec), "a request encoded after another one still serializes to the specification's ADU")
	b1again := first.req.Bytes()
	vndAssert(len(b1again) == len(b1) && vhEqualBytes(b1again, b1), "encoding the same request again gives the same bytes")
	vndAssert(len(b1) == len(first.spec) && vhEqualBytes(b1, first.spec), "the first request serializes to the specification's ADU")
}

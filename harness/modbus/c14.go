//go:build verif

package modbus

import (
	"context"
	"net"

	"github.com/aldas/go-modbus-client/packet"
)

// C14 — (claimed scope) lock discipline of a shared client, a per-path sequential fact:
// the client's mutex is held at every transport operation of Do / Close (and around the dial of Connect),
// it is released by the time every call returns - on every error path and when a hook panics - and no path
// acquires it twice (the mutex model reports a second Lock on a held mutex as a deadlock).

type vhPanicHooks struct{ where int }

func (h *vhPanicHooks) BeforeWrite(toWrite []byte) {
	if h.where == 1 {
		panic("hook panics in BeforeWrite")
	}
}
func (h *vhPanicHooks) AfterEachRead(received []byte, n int, err error) {
	if h.where == 2 {
		panic("hook panics in AfterEachRead")
	}
}
func (h *vhPanicHooks) BeforeParse(received []byte) {
	if h.where == 3 {
		panic("hook panics in BeforeParse")
	}
}

func VH_C14_lock_discipline() {
	kind, mode, q := vndParam("kind"), vndParam("mode"), vndParam("q")
	fault := vndParam("fault")
	hookPanic := vndParam("hookpanic") // 0 no hooks, 1..3 a hook that panics at that point
	x := vhMakeExchange(kind, mode, q, false)
	s := &vhScript{reply: x.reply, fault: fault}
	E := x.req.ExpectedResponseLength()
	upTo := len(x.reply)
	if fault != 0 && fault != vhFaultWrite && fault != vhFaultWriteDl {
		set := vhCutSet(upTo, E)
		upTo = set[vndChoice("prefix", len(set))]
	}
	if upTo > 0 && fault != vhFaultWrite && fault != vhFaultWriteDl {
		vhFragmentation(s, upTo, E, vndParam("chunks"))
	}
	var hooks ClientHooks
	if hookPanic != 0 {
		hooks = &vhPanicHooks{where: hookPanic}
	}
	ctx := vhNewCtx()
	s.ctx = ctx
	free := func() bool { return true }
	if mode == 2 {
		opts := []SerialClientOptionFunc{WithSerialReadTimeout(vhReadTimeout)}
		if hooks != nil {
			opts = append(opts, WithSerialHooks(hooks))
		}
		sc := NewSerialClient(&vhPort{s: s}, opts...)
		// the client's mutex is found by type, not by name (vndLockState); a client without a mutex field gives
		// "unknown" and the lock-discipline obligations below hold vacuously (cover "lock-probe" is then not reached)
		free = func() bool { return vndLockState(sc) != 1 }
		s.lockProbe = func() bool { return vndLockState(sc) == 0 }
		if vndLockState(sc) != 2 {
			vndCover("lock-probe")
		}
		func() {
			defer func() { recover() }()
			sc.Do(ctx, x.req)
		}()
		vndCover("do-returned")
		vndAssert(free(), "serial client: the lock is released when Do returns (any path, including a panicking hook)")
		sc.Close()
		vndAssert(free(), "serial client: the lock is released when Close returns")
		vndAssert(s.closed == 1, "Close closes the port")
	} else {
		dialLocked := false
		var nc *Client
		conf := ClientConfig{ReadTimeout: vhReadTimeout, Hooks: hooks,
			DialContextFunc: func(c context.Context, address string) (net.Conn, error) {
				dialLocked = vndLockState(nc) != 0
				return &vhConn{s: s}, nil
			}}
		if mode == 0 {
			nc = NewTCPClientWithConfig(conf)
		} else {
			nc = NewRTUClientWithConfig(conf)
		}
		nc.timeNow = vhNow
		free = func() bool { return vndLockState(nc) != 1 }
		s.lockProbe = func() bool { return vndLockState(nc) == 0 }
		if vndLockState(nc) != 2 {
			vndCover("lock-probe")
		}
		nc.Connect(ctx, "scripted")
		vndAssert(dialLocked, "Connect dials (and stores the connection) under the lock")
		vndAssert(free(), "the lock is released when Connect returns")
		func() {
			defer func() { recover() }()
			nc.Do(ctx, x.req)
		}()
		vndCover("do-returned")
		vndAssert(free(), "network client: the lock is released when Do returns (any path, including a panicking hook)")
		nc.Close()
		vndAssert(free(), "the lock is released when Close returns")
		vndAssert(s.closed == 1, "Close closes the connection")
	}
	vndAssert(!s.lockMissing, "every transport operation (write, read, deadline, flush, close) happens with the client's lock held")
}

// VH_C14_reply_ownership: each caller receives the reply to its own request and keeps it: a response handed to one
// caller is not changed by a later exchange on the same client (sequential consequence of the sharing contract:
// whatever a later caller does must not reach into an earlier caller's reply).
func VH_C14_reply_ownership() {
	mode := vndParam("mode")
	kind := vndParam("kind")
	a := vhMakeExchange(kind, mode, vndParam("q"), false)
	b := vhMakeExchange(kind, mode, vndParam("q"), false)
	stream := append(append([]byte{}, a.reply...), b.reply...)
	s := &vhScript{reply: stream}
	// first call gets exactly the first reply, the second call the second one (each in one read)
	s.cuts = []int{len(a.reply), len(stream)}
	s.pauses = []bool{false, false}
	s.paused = []bool{false, false}
	c := vhNewClient(mode, s, false)
	respA, errA := c.do(a.req)
	if errA != nil || respA == nil {
		return // the listed C07 findings (wrong expected lengths) are not this check's subject
	}
	snap := append([]byte{}, respA.Bytes()...)
	vndAssert(vhEqualBytes(snap, a.reply), "the first caller receives the reply to its own request")
	respB, errB := c.do(b.req)
	vndCover("two-exchanges")
	if errB == nil && respB != nil {
		vndAssert(vhEqualBytes(respB.Bytes(), b.reply), "the second caller receives the reply to its own request")
	}
	vndAssert(vhEqualBytes(respA.Bytes(), snap), "a reply already handed to a caller is not changed by a later exchange on the same client")
}

// vhRacyRequest starts a concurrent operation on the same client at the moment the request is asked for its bytes
// (at == 0) or for its expected response length (at == 1), i.e. while Do is running.
type vhRacyRequest struct {
	inner packet.Request
	at    int
	fire  func()
	fired bool
}

func (r *vhRacyRequest) FunctionCode() uint8 { return r.inner.FunctionCode() }
func (r *vhRacyRequest) Bytes() []byte {
	if r.at == 0 && !r.fired {
		r.fired = true
		r.fire()
	}
	return r.inner.Bytes()
}
func (r *vhRacyRequest) ExpectedResponseLength() int {
	if r.at == 1 && !r.fired {
		r.fired = true
		r.fire()
	}
	return r.inner.ExpectedResponseLength()
}

// VH_C14_concurrent_op: one goroutine-level interleaving that the harness can pin both symbolically and natively:
// while a Do call is in progress (at the point where it encodes the request) another goroutine calls Close, Connect
// or Do on the same client. The first Do must not panic and must still return the reply to its own request; the
// concurrent operation must take effect only after it (the executor parks a goroutine that blocks on the client's
// mutex and runs it when the mutex is released; natively the goroutine simply blocks).
func VH_C14_concurrent_op() {
	mode := vndParam("mode") // 0 TCP, 1 RTU network client
	op := vndParam("op")     // 0 Close, 1 Connect, 2 a second Do, 3 a Do with an ended context followed by a Do
	a := vhMakeExchange(2, mode, 1, false)
	b := vhMakeExchange(2, mode, 1, false)
	stream := append(append([]byte{}, a.reply...), b.reply...)
	s := &vhScript{reply: stream, cuts: []int{len(a.reply), len(stream)}, pauses: []bool{false, false}, paused: []bool{false, false}}
	c := vhNewClient(mode, s, false)
	dials := 0
	c.net.dialContextFunc = func(ctx context.Context, address string) (net.Conn, error) {
		dials++
		return &vhConn{s: s}, nil
	}
	var respB packet.Response
	var errB, errDead error
	doneB := false
	req := &vhRacyRequest{inner: a.req, at: vndParam("at")}
	req.fire = func() {
		go func() {
			switch op {
			case 0:
				c.net.Close()
			case 1:
				c.net.Connect(c.ctx, "again")
			case 3:
				// a caller whose context has already ended (it must not disturb the call in progress either, however
				// it is turned away), followed by an ordinary call from the same goroutine
				dead := vhNewCtx()
				dead.expire()
				_, errDead = c.net.Do(dead, b.req)
				respB, errB = c.net.Do(c.ctx, b.req)
			default:
				respB, errB = c.net.Do(c.ctx, b.req)
			}
			doneB = true
		}()
		vndYield()
	}
	respA, errA := c.net.Do(c.ctx, req)
	vndSettle()
	vndCover("concurrent-op")
	vndAssert(doneB, "the concurrent operation completes")
	vndAssert(errA == nil && respA != nil, "the call in progress is not disturbed by a concurrent Close/Connect/Do")
	if errA == nil && respA != nil {
		vndAssert(vhEqualBytes(respA.Bytes(), a.reply), "the call in progress returns the reply to its own request")
	}
	switch op {
	case 0:
		vndAssert(s.closed == 1, "the concurrent Close closes the connection (after the exchange)")
	case 1:
		vndAssert(dials == 1, "the concurrent Connect dials once")
	case 3:
		vndAssert(errDead != nil, "a call whose context has ended fails")
		vndAssert(errB == nil && respB != nil && vhEqualBytes(respB.Bytes(), b.reply), "the concurrent Do is carried out after the first and receives the reply to its own request")
	default:
		vndAssert(errB == nil && respB != nil && vhEqualBytes(respB.Bytes(), b.reply), "the concurrent Do is carried out after the first and receives the reply to its own request")
	}
	vndAssert(len(s.written) >= 1 && vhEqualBytes(s.written[0], a.req.Bytes()), "request frames are not interleaved on the wire")
}

// VH_C14_race: two goroutines share one client and each carries out one operation on it (Close, Connect, Do). The
// executor runs them one after the other (first A then B) with happens-before race detection switched on: every
// access the code under test makes to memory is stamped with the goroutine's vector clock, and only the
// synchronisation the code itself performs (its mutex, atomics, channels) orders accesses of different goroutines.
// Two conflicting accesses that nothing orders are a data race in some real schedule, whichever goroutine the
// executor happened to run first. Natively the tape is replayed with real goroutines under the Go race detector.
func VH_C14_race() {
	mode := vndParam("mode") // 0 TCP, 1 RTU network client, 2 serial client
	opA, opB := vndParam("opa"), vndParam("opb")
	a := vhMakeExchange(2, mode, 1, false)
	b := vhMakeExchange(2, mode, 1, false)
	stream := append(append([]byte{}, a.reply...), b.reply...)
	s := &vhScript{reply: stream, cuts: []int{len(a.reply), len(stream)}, pauses: []bool{false, false}, paused: []bool{false, false}}
	if f := vndParam("fault"); f != 0 {
		s = &vhScript{reply: a.reply, fault: f} // the transport fails before any reply byte arrives (error paths of Do)
	}
	c := vhNewClient(mode, s, vndParam("hooks") == 1)
	run := func(op int, x vhExchange) {
		defer func() { recover() }()
		switch op {
		case 0:
			if c.serial != nil {
				c.serial.Close()
			} else {
				c.net.Close()
			}
		case 1:
			if c.net != nil {
				c.net.Connect(c.ctx, "again")
			}
		default:
			c.do(x.req)
		}
	}
	vndRaceDetect()
	go run(opA, a)
	vndSettle()
	go run(opB, b)
	vndSettle()
	vndCover("raced")
	vndRaceCheck()
}

// VH_C14_hammer: two goroutines call Close and (Connect | Do with an ended context) on one network client. The
// executor runs each call once and decides from its lock model whether a call can wait forever (a lock taken twice,
// a read lock taken recursively - which hangs only when a writer arrives in between); natively the two calls are
// repeated concurrently many times and a hang is what confirms the prediction.
func VH_C14_hammer() {
	mode := vndParam("mode") // 0 TCP, 1 RTU network client
	opB := vndParam("opb")   // 1 Connect, 2 Do
	a := vhMakeExchange(2, mode, 1, false)
	s := &vhScript{reply: a.reply, fault: vhFaultEOF}
	c := vhNewClient(mode, s, false)
	dead := vhNewCtx()
	dead.cancel()
	vndHammer(20000, func() {
		c.net.Close()
	}, func() {
		if opB == 1 {
			c.net.Connect(c.ctx, "again")
		} else {
			c.net.Do(dead, a.req)
		}
	})
	vndCover("hammered")
}

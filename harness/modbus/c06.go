//go:build verif

package modbus

import (
	"github.com/aldas/go-modbus-client/packet"
)

// C05 / C06 — request builder: batching and extraction.

// Field classes (concrete per query, everything else symbolic):
//
//	0 Uint16 (1 register)   1 Uint32 (2)   2 Float64 (4)   3 String (length symbolic 1..255)
//	4 Coil                  5 Bit (bit number symbolic 0..255, >15 is invalid)
//	6 invalid type (0 or above 14, symbolic)     7 Int8 (1 register, high/low symbolic)
var vhServers = []string{"hostA:502", "hostB:502"}

// adversarial target names for the grouping key: server strings that are prefixes of each other and unit ids whose
// decimal forms make "server+unit" ambiguous when concatenated (all concrete)
var vhTrickyServers = []string{"h1", "h11", "h1_1"}
var vhTrickyUnits = []uint8{1, 2, 11, 12, 21}

func vhField(i int, class int) Field {
	f := Field{Name: []string{"f0", "f1", "f2", "f3"}[i]}
	if vndParam("tricky") == 1 {
		f.ServerAddress = vhTrickyServers[vndChoice("server", len(vhTrickyServers))]
		f.UnitID = vhTrickyUnits[vndChoice("unit", len(vhTrickyUnits))]
	} else {
		f.ServerAddress = vhServers[vndChoice("server", 2)]
		f.UnitID = vndU8("unit")
	}
	f.Address = vndU16("address")
	f.ByteOrder = packet.ByteOrder(vndU8("byteorder"))
	switch class {
	case 0:
		f.Type = FieldTypeUint16
	case 1:
		f.Type = FieldTypeUint32
	case 2:
		f.Type = FieldTypeFloat64
	case 3:
		f.Type = FieldTypeString
		f.Length = vndU8("length")
	case 4:
		f.Type = FieldTypeCoil
	case 5:
		f.Type = FieldTypeBit
		f.Bit = vndU8("bit")
	case 6:
		f.Type = FieldType(vndU8("type"))
		vndAssume(f.Type == 0 || f.Type > 14)
	case 7:
		f.Type = FieldTypeInt8
		f.FromHighByte = vndBool("high")
	}
	return f
}

// vhFieldSize: registers (or coils) a valid field spans, from the documentation of the field types.
func vhFieldSize(f Field) int {
	switch f.Type {
	case FieldTypeUint32, FieldTypeInt32, FieldTypeFloat32:
		return 2
	case FieldTypeUint64, FieldTypeInt64, FieldTypeFloat64:
		return 4
	case FieldTypeString:
		return (int(f.Length) + 1) / 2
	}
	return 1
}

func vhFieldValid(f Field) bool {
	if f.ServerAddress == "" || f.Type == 0 || f.Type > 14 || f.Bit > 15 {
		return false
	}
	if f.Type == FieldTypeString && f.Length == 0 {
		return false
	}
	return true
}

func vhSplitTarget(target int, fields Fields) ([]BuilderRequest, error) {
	return vhCallTarget(NewRequestBuilder("", 0).AddAll(fields), target)
}

// vhSplitTargetAfter: the same builder is first asked for the requests of the OTHER kind (coils <-> registers), then
// for the target's: what the first call did to the builder must not show in the second.
func vhSplitTargetAfter(target int, fields Fields) ([]BuilderRequest, error) {
	b := NewRequestBuilder("", 0).AddAll(fields)
	vhCallTarget(b, (target+4)%8)
	return vhCallTarget(b, target)
}

func vhCallTarget(b *Builder, target int) ([]BuilderRequest, error) {
	switch target {
	case 0:
		return b.ReadCoilsTCP()
	case 1:
		return b.ReadCoilsRTU()
	case 2:
		return b.ReadDiscreteInputsTCP()
	case 3:
		return b.ReadDiscreteInputsRTU()
	case 4:
		return b.ReadHoldingRegistersTCP()
	case 5:
		return b.ReadHoldingRegistersRTU()
	case 6:
		return b.ReadInputRegistersTCP()
	}
	return b.ReadInputRegistersRTU()
}

// vhDecodeRequest reads function, unit, start and quantity back from the encoded packet.
func vhDecodeRequest(target int, r BuilderRequest) (fc uint8, unit uint8, start int, qty int) {
	b := r.Request.Bytes()
	off := 0
	if target%2 == 0 { // TCP
		off = 6
	}
	return b[off+1], b[off], int(b[off+2])<<8 | int(b[off+3]), int(b[off+4])<<8 | int(b[off+5])
}

func VH_C06_batches() {
	k := vndParam("k")
	target := vndParam("target")
	coilTarget := target < 4
	classes := []int{vndParam("c0"), vndParam("c1"), vndParam("c2"), vndParam("c3")}
	var fields Fields
	for i := 0; i < k; i++ {
		fields = append(fields, vhField(i, classes[i]))
	}
	var reqs []BuilderRequest
	var err error
	if vndParam("pre") == 1 {
		reqs, err = vhSplitTargetAfter(target, fields)
	} else {
		reqs, err = vhSplitTarget(target, fields)
	}
	if err != nil {
		vndCover("builder-error")
		// the statement allows an error; an error for a list of valid fields whose spans all fit the address space
		// would still be a defect
		// (a single field larger than the largest request - a string of more than 250 characters - cannot be batched)
		lim := 125
		if coilTarget {
			lim = 2000
		}
		allOK := true
		for _, f := range fields {
			if !vhFieldValid(f) || int(f.Address)+vhFieldSize(f) > 65536 || vhFieldSize(f) > lim {
				allOK = false
			}
		}
		vndAssert(!allOK, "valid fields inside the address space are batched without error")
		return
	}
	vndCover("batched")
	limit := 125
	wantFC := uint8(3)
	switch {
	case target < 2:
		limit, wantFC = 2000, 1
	case target < 4:
		limit, wantFC = 2000, 2
	case target >= 6:
		wantFC = 4
	}
	for _, f := range fields {
		vndAssert(vhFieldValid(f), "an invalid field definition makes the builder fail")
	}
	// per request
	for ri, r := range reqs {
		fc, unit, start, qty := vhDecodeRequest(target, r)
		vndAssert(fc == wantFC, "request uses the function of the split target")
		vndAssert(len(r.Fields) >= 1, "no request is empty")
		vndAssert(unit == r.UnitID && start == int(r.StartAddress), "encoded packet carries the descriptor's unit id and start address")
		vndAssert(qty >= 1 && qty <= limit, "quantity is within the protocol limit")
		lo, hi := 1<<30, -1
		for _, f := range r.Fields {
			isCoil := f.Type == FieldTypeCoil
			vndAssert(isCoil == coilTarget, "fields of the other kind never appear")
			vndAssert(f.ServerAddress == r.ServerAddress && f.UnitID == r.UnitID, "request targets the field's own server address and unit id")
			a, e := int(f.Address), int(f.Address)+vhFieldSize(f)
			vndAssert(a >= start && e <= start+qty, "the field's whole span lies inside the request window")
			if a < lo {
				lo = a
			}
			if e > hi {
				hi = e
			}
		}
		if len(r.Fields) >= 1 {
			vndAssert(lo == start && hi == start+qty, "window is tight: starts at its lowest field and ends where its furthest field ends")
		}
		_ = ri
	}
	// per field: exactly one request
	for _, f := range fields {
		cnt := 0
		for _, r := range reqs {
			for _, rf := range r.Fields {
				if rf.Name == f.Name {
					cnt++
				}
			}
		}
		if (f.Type == FieldTypeCoil) == coilTarget {
			vndAssert(cnt == 1, "every field of the requested kind appears in exactly one request")
		} else {
			vndAssert(cnt == 0, "fields of the other kind appear in no request")
		}
	}
	// fields of one server/unit/kind whose total span fits the limit are never split
	for i, f := range fields {
		for j, g := range fields {
			if j <= i || (f.Type == FieldTypeCoil) != coilTarget || (g.Type == FieldTypeCoil) != coilTarget {
				continue
			}
			if f.ServerAddress != g.ServerAddress || f.UnitID != g.UnitID {
				continue
			}
			// total span of the whole group
			glo, ghi := 1<<30, -1
			for _, h := range fields {
				if h.ServerAddress == f.ServerAddress && h.UnitID == f.UnitID && (h.Type == FieldTypeCoil) == coilTarget {
					if int(h.Address) < glo {
						glo = int(h.Address)
					}
					if int(h.Address)+vhFieldSize(h) > ghi {
						ghi = int(h.Address) + vhFieldSize(h)
					}
				}
			}
			if ghi-glo <= limit {
				same := false
				for _, r := range reqs {
					hasF, hasG := false, false
					for _, rf := range r.Fields {
						if rf.Name == f.Name {
							hasF = true
						}
						if rf.Name == g.Name {
							hasG = true
						}
					}
					if hasF && hasG {
						same = true
					}
				}
				vndAssert(same, "fields of one server/unit/kind whose total span fits the limit share one request")
			}
		}
	}
}

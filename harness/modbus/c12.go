//go:build verif

package modbus

import (
	"errors"

	"github.com/aldas/go-modbus-client/packet"
)

// C12 — over RTU a reply whose CRC does not match its content is never surfaced as data or as a device exception.
//
// The transport delivers an ARBITRARY byte string S (length case-split, contents symbolic) in one or two reads:
// this subsumes every bit flip, substitution, truncation and extension of every valid reply. Whatever the client
// hands back as a response, or as an error unwrapping to *packet.ErrorResponseRTU, must have come from bytes whose
// trailing two bytes are the CRC of the rest.

func VH_C12_arbitrary_reply() {
	mode := vndParam("mode") // 1 RTU network client, 2 serial client
	kind, q := vndParam("kind"), vndParam("q")
	L := vndParam("L")
	x := vhMakeExchange(kind, mode, q, false)
	S := vndBytes("wire", L, 0)
	s := &vhScript{reply: S, fault: vhFaultStall}
	E := x.req.ExpectedResponseLength()
	if L > 0 {
		vhFragmentation(s, L, E, vndParam("chunks"))
	}
	c := vhNewClient(mode, s, false)
	resp, err := c.do(x.req)
	vndCover("returned")
	// the bytes the client consumed
	var consumed []byte
	for _, r := range s.reads {
		consumed = append(consumed, r.buf...)
	}
	n := len(consumed)
	crcOK := false
	if n >= 4 {
		crc := packet.CRC16(consumed[:n-2])
		crcOK = consumed[n-2] == byte(crc) && consumed[n-1] == byte(crc>>8)
	}
	var re *packet.ErrorResponseRTU
	isExc := err != nil && errors.As(err, &re)
	if isExc && !crcOK && vndKnown("KF-C12-1") && n == 5 && consumed[1]&0x80 != 0 {
		// listed finding: the 5-byte exception shortcut runs before any CRC verification
		vndKnownHit("KF-C12-1")
		return
	}
	if err == nil {
		vndCover("success")
		vndAssert(crcOK, "a reply returned as data ends in the CRC of its content")
	}
	if isExc {
		vndCover("device-exception")
		vndAssert(crcOK, "a reply surfaced as a device exception ends in the CRC of its content")
	}
	_ = resp
}

//go:build verif

package modbus

import (
	"context"
	"errors"
	"io"
	"net"
	"os"
	"time"

	"github.com/aldas/go-modbus-client/packet"
)

// Shared environment for the client checks (C07, C08, C12, C14, C19).
//
// The transport is ordinary Go code obeying only the io.Reader contract: each Read hands out the next chunk of a
// scripted reply (chunk boundaries are chosen from a case-split set), optionally preceded by empty timed-out
// reads, or takes a fault. Time is controlled through vndAdvanceTime (symbolically: every time.After channel
// becomes ready; natively: sleep past the client's read timeout), the context is a small in-harness
// implementation of context.Context.

const vhReadTimeout = 60 * time.Millisecond

var vhT0 = time.Unix(1700000000, 0)

func vhNow() time.Time { return vhT0 }

var errVhIO = errors.New("scripted i/o error")
var errVhFlush = errors.New("scripted flush error")

// ---- context ----

type vhCtx struct {
	done chan struct{}
	err  error
}

func vhNewCtx() *vhCtx                             { return &vhCtx{done: make(chan struct{})} }
func (c *vhCtx) Deadline() (time.Time, bool)       { return time.Time{}, false }
func (c *vhCtx) Done() <-chan struct{}             { return c.done }
func (c *vhCtx) Err() error                        { return c.err }
func (c *vhCtx) Value(key interface{}) interface{} { return nil }
func (c *vhCtx) expire() {
	if c.err == nil {
		c.err = context.DeadlineExceeded
		close(c.done)
	}
}
func (c *vhCtx) cancel() {
	if c.err == nil {
		c.err = context.Canceled
		close(c.done)
	}
}

// ---- scripted transport ----

const (
	vhFaultNone     = 0
	vhFaultStall    = 1 // after the prefix: only empty deadline-exceeded reads, time passes
	vhFaultEOF      = 2 // after the prefix: io.EOF
	vhFaultIO       = 3 // after the prefix: an I/O error
	vhFaultOversize = 4 // keeps delivering bytes beyond any frame size
	vhFaultWrite    = 5 // the write is rejected
	vhFaultWriteDl  = 6 // SetWriteDeadline fails
	vhFaultCancel   = 7 // the context is cancelled after the prefix
	vhFaultDeadline = 8 // the caller's context deadline expires after the prefix
)

type vhRead struct {
	n   int
	err error
	buf []byte // copy of what was handed out
}

type vhScript struct {
	reply    []byte // what the device sends
	cuts     []int  // absolute chunk end positions, ascending; last == len(reply) (or the fault prefix)
	pauses   []bool // pauses[i]: an empty deadline-exceeded read happens before chunk i
	pauseEOF bool   // serial ports only: an elapsed read timeout is reported as (0, io.EOF), as some drivers do
	withErr  []bool // withErr[i]: chunk i is handed out together with os.ErrDeadlineExceeded (n > 0 and an error)
	paused   []bool
	next     int // next chunk index
	pos      int
	fault    int
	ctx      *vhCtx
	written  [][]byte
	reads    []vhRead
	closed   int
	flushes  int
	flushErr bool

	readDeadlineFresh bool
	deadlineViolation bool
	lastWriteDeadline time.Duration

	lockProbe     func() bool // returns true if the client's lock is NOT held (violation)
	lockMissing   bool
	opsBeforeConn int
	extraReads    int
	oversizeN     int
}

func (s *vhScript) probe() {
	if s.lockProbe != nil && s.lockProbe() {
		s.lockMissing = true
	}
}

func (s *vhScript) record(p []byte, n int, err error) (int, error) {
	cp := make([]byte, n)
	copy(cp, p[:n])
	s.reads = append(s.reads, vhRead{n: n, err: err, buf: cp})
	return n, err
}

func (s *vhScript) read(p []byte) (int, error) {
	s.probe()
	if !s.readDeadlineFresh {
		s.deadlineViolation = true
	}
	s.readDeadlineFresh = false
	if s.next < len(s.cuts) {
		if s.pauses[s.next] && !s.paused[s.next] {
			s.paused[s.next] = true
			if s.pauseEOF {
				return s.record(p, 0, io.EOF)
			}
			return s.record(p, 0, os.ErrDeadlineExceeded)
		}
		end := s.cuts[s.next]
		s.next++
		n := end - s.pos
		if n > len(p) {
			n = len(p)
		}
		copy(p, s.reply[s.pos:s.pos+n])
		s.pos += n
		if s.next-1 < len(s.withErr) && s.withErr[s.next-1] && n > 0 {
			return s.record(p, n, os.ErrDeadlineExceeded)
		}
		return s.record(p, n, nil)
	}
	// the scripted prefix has been delivered
	s.extraReads++
	if s.extraReads > 6 {
		vndAssume(false) // bound on reads after the script; termination is judged separately (see C08)
	}
	switch s.fault {
	case vhFaultEOF:
		return s.record(p, 0, io.EOF)
	case vhFaultIO:
		return s.record(p, 0, errVhIO)
	case vhFaultOversize:
		// the device keeps talking: the read delivers oversizeN bytes (0 = fills the whole buffer)
		n := len(p)
		if s.oversizeN > 0 && s.oversizeN < n {
			n = s.oversizeN
		}
		for i := 0; i < n; i++ {
			p[i] = 0
		}
		return s.record(p, n, nil)
	case vhFaultCancel:
		s.ctx.cancel()
		vndYield() // natively: let contexts derived from ours notice (they watch the parent from a goroutine)
		return s.record(p, 0, os.ErrDeadlineExceeded)
	case vhFaultDeadline:
		s.ctx.expire()
		vndYield()
		return s.record(p, 0, os.ErrDeadlineExceeded)
	}
	// nothing more to send (complete reply delivered, or stall): the read times out and time passes
	vndAdvanceTime()
	return s.record(p, 0, os.ErrDeadlineExceeded)
}

func (s *vhScript) write(b []byte) (int, error) {
	s.probe()
	cp := make([]byte, len(b))
	copy(cp, b)
	s.written = append(s.written, cp)
	if s.fault == vhFaultWrite {
		return 0, errVhIO
	}
	return len(b), nil
}

// vhConn is the net.Conn handed to the network client.
type vhConn struct{ s *vhScript }

func (c *vhConn) Read(p []byte) (int, error)  { return c.s.read(p) }
func (c *vhConn) Write(b []byte) (int, error) { return c.s.write(b) }
func (c *vhConn) Close() error                { c.s.probe(); c.s.closed++; return nil }
func (c *vhConn) LocalAddr() net.Addr         { return nil }
func (c *vhConn) RemoteAddr() net.Addr        { return nil }
func (c *vhConn) SetDeadline(t time.Time) error {
	c.s.probe()
	return nil
}
func (c *vhConn) SetReadDeadline(t time.Time) error {
	c.s.probe()
	d := t.Sub(vhT0)
	if d <= 0 || d > 500*time.Microsecond {
		c.s.deadlineViolation = true
	}
	c.s.readDeadlineFresh = true
	return nil
}
func (c *vhConn) SetWriteDeadline(t time.Time) error {
	c.s.probe()
	c.s.lastWriteDeadline = t.Sub(vhT0)
	if c.s.fault == vhFaultWriteDl {
		return errVhIO
	}
	return nil
}

// vhPort is the io.ReadWriteCloser (+Flusher) handed to the serial client.
type vhPort struct{ s *vhScript }

func (c *vhPort) Read(p []byte) (int, error) {
	c.s.readDeadlineFresh = true // the serial client sets no per-read deadline
	return c.s.read(p)
}
func (c *vhPort) Write(b []byte) (int, error) { return c.s.write(b) }
func (c *vhPort) Close() error                { c.s.probe(); c.s.closed++; return nil }
func (c *vhPort) Flush() error {
	c.s.probe()
	c.s.flushes++
	if c.s.flushErr {
		return errVhFlush
	}
	return nil
}

// ---- recording hooks ----

type vhHooks struct {
	s           *vhScript
	beforeWrite [][]byte
	writesSeen  []int // number of transport writes that had happened when BeforeWrite ran
	afterRead   []vhRead
	readsSeen   []int
	beforeParse [][]byte
}

func (h *vhHooks) BeforeWrite(toWrite []byte) {
	cp := make([]byte, len(toWrite))
	copy(cp, toWrite)
	h.beforeWrite = append(h.beforeWrite, cp)
	h.writesSeen = append(h.writesSeen, len(h.s.written))
}
func (h *vhHooks) AfterEachRead(received []byte, n int, err error) {
	cp := make([]byte, len(received))
	copy(cp, received)
	h.afterRead = append(h.afterRead, vhRead{n: n, err: err, buf: cp})
	h.readsSeen = append(h.readsSeen, len(h.s.reads))
}
func (h *vhHooks) BeforeParse(received []byte) {
	cp := make([]byte, len(received))
	copy(cp, received)
	h.beforeParse = append(h.beforeParse, cp)
}

// ---- requests and their specification replies ----

// kinds: 0..9 = FC 1,2,3,4,5,6,15,16,17,23. mode: 0 TCP client, 1 RTU-over-network client, 2 serial client.
type vhExchange struct {
	req     packet.Request
	reply   []byte // the well-formed reply to req
	isExc   bool
	excCode uint8
	fc      uint8
	unit    uint8
	tcp     bool
	specLen int // the true length of the reply
}

func vhBE(v uint16) (byte, byte) { return byte(v >> 8), byte(v) }

// vhMakeExchange builds request kind `kind` with quantity q through the public constructors and the reply the
// specification prescribes for it (payload bytes symbolic). exc: reply with an exception instead.
func vhMakeExchange(kind int, mode int, q int, exc bool) vhExchange {
	var x vhExchange
	x.tcp = mode == 0
	x.unit = vndU8("unit")
	addr := vndU16("addr")
	x.fc = []uint8{1, 2, 3, 4, 5, 6, 15, 16, 17, 23}[kind]
	ah, al := vhBE(addr)
	var err error
	var pdu []byte
	switch kind {
	case 0, 1:
		nb := (q + 7) / 8
		data := vndBytes("replydata", nb, 0)
		if kind == 0 && x.tcp {
			x.req, err = packet.NewReadCoilsRequestTCP(x.unit, addr, uint16(q))
		} else if kind == 0 {
			x.req, err = packet.NewReadCoilsRequestRTU(x.unit, addr, uint16(q))
		} else if x.tcp {
			x.req, err = packet.NewReadDiscreteInputsRequestTCP(x.unit, addr, uint16(q))
		} else {
			x.req, err = packet.NewReadDiscreteInputsRequestRTU(x.unit, addr, uint16(q))
		}
		pdu = append([]byte{x.fc, byte(nb)}, data...)
	case 2, 3:
		data := vndBytes("replydata", 2*q, 0)
		if kind == 2 && x.tcp {
			x.req, err = packet.NewReadHoldingRegistersRequestTCP(x.unit, addr, uint16(q))
		} else if kind == 2 {
			x.req, err = packet.NewReadHoldingRegistersRequestRTU(x.unit, addr, uint16(q))
		} else if x.tcp {
			x.req, err = packet.NewReadInputRegistersRequestTCP(x.unit, addr, uint16(q))
		} else {
			x.req, err = packet.NewReadInputRegistersRequestRTU(x.unit, addr, uint16(q))
		}
		pdu = append([]byte{x.fc, byte(2 * q)}, data...)
	case 4:
		on := vndBool("on")
		if x.tcp {
			x.req, err = packet.NewWriteSingleCoilRequestTCP(x.unit, addr, on)
		} else {
			x.req, err = packet.NewWriteSingleCoilRequestRTU(x.unit, addr, on)
		}
		v := byte(0)
		if on {
			v = 0xFF
		}
		pdu = []byte{x.fc, ah, al, v, 0}
	case 5:
		val := vndBytes("value", 2, 0)
		if x.tcp {
			x.req, err = packet.NewWriteSingleRegisterRequestTCP(x.unit, addr, val)
		} else {
			x.req, err = packet.NewWriteSingleRegisterRequestRTU(x.unit, addr, val)
		}
		pdu = []byte{x.fc, ah, al, val[0], val[1]}
	case 6:
		coils := vndBools("coils", q)
		if x.tcp {
			x.req, err = packet.NewWriteMultipleCoilsRequestTCP(x.unit, addr, coils)
		} else {
			x.req, err = packet.NewWriteMultipleCoilsRequestRTU(x.unit, addr, coils)
		}
		pdu = []byte{x.fc, ah, al, byte(q >> 8), byte(q)}
	case 7:
		data := vndBytes("regs", 2*q, 0)
		if x.tcp {
			x.req, err = packet.NewWriteMultipleRegistersRequestTCP(x.unit, addr, data)
		} else {
			x.req, err = packet.NewWriteMultipleRegistersRequestRTU(x.unit, addr, data)
		}
		pdu = []byte{x.fc, ah, al, byte(q >> 8), byte(q)}
	case 8: // read server id: the device chooses the length (q = id length, one status byte, one additional byte)
		id := vndBytes("serverid", q, 0)
		if x.tcp {
			x.req, err = packet.NewReadServerIDRequestTCP(x.unit)
		} else {
			x.req, err = packet.NewReadServerIDRequestRTU(x.unit)
		}
		pdu = append([]byte{x.fc, byte(q)}, id...)
		pdu = append(pdu, vndU8("status"), vndU8("additional"))
	case 9:
		data := vndBytes("replydata", 2*q, 0)
		wdata := vndBytes("writedata", 2, 0)
		waddr := vndU16("waddr")
		if x.tcp {
			x.req, err = packet.NewReadWriteMultipleRegistersRequestTCP(x.unit, addr, uint16(q), waddr, wdata)
		} else {
			x.req, err = packet.NewReadWriteMultipleRegistersRequestRTU(x.unit, addr, uint16(q), waddr, wdata)
		}
		pdu = append([]byte{x.fc, byte(2 * q)}, data...)
	default:
		vndAssume(false)
	}
	vndAssume(err == nil)
	if exc {
		x.isExc = true
		x.excCode = vndU8("exceptionCode")
		pdu = []byte{x.fc | 0x80, x.excCode}
	}
	if x.tcp {
		rb := x.req.Bytes()
		n := len(pdu) + 1
		x.reply = append([]byte{rb[0], rb[1], 0, 0, byte(n >> 8), byte(n), x.unit}, pdu...)
	} else {
		body := append([]byte{x.unit}, pdu...)
		crc := packet.CRC16(body)
		x.reply = append(body, byte(crc), byte(crc>>8))
	}
	x.specLen = len(x.reply)
	return x
}

// vhCutSet: the chunk boundaries worth distinguishing for a reply of length L when the client expects E bytes:
// everything near the header / exception lengths, around E and around L.
func vhCutSet(L, E int) []int {
	cand := []int{0, 1, 2, 3, 4, 5, 6, 7, 8, 9, 10, 11, 12, E - 1, E, E + 1, L - 3, L - 2, L - 1}
	var out []int
	for _, c := range cand {
		if c < 0 || c >= L {
			continue
		}
		dup := false
		for _, o := range out {
			if o == c {
				dup = true
			}
		}
		if !dup {
			out = append(out, c)
		}
	}
	return out
}

// vhFragmentation chooses `chunks` chunk boundaries (ascending, last one = upTo) and the pauses before them.
// chunks > 100 means chunks-100 chunks with EVERY position 0..upTo-1 as a candidate boundary.
func vhFragmentation(s *vhScript, upTo int, E int, chunks int) {
	set := vhCutSet(upTo, E)
	if chunks > 100 {
		chunks -= 100
		set = nil
		for c := 0; c < upTo; c++ {
			set = append(set, c)
		}
	}
	prev := 0
	for i := 0; i < chunks-1; i++ {
		k := vndChoice("cut", len(set))
		c := set[k]
		vndAssume(c >= prev)
		s.cuts = append(s.cuts, c)
		prev = c
	}
	s.cuts = append(s.cuts, upTo)
	for range s.cuts {
		s.pauses = append(s.pauses, vndBool("pause"))
		s.paused = append(s.paused, false)
		// only the first chunk may arrive together with a deadline error (n > 0 and err != nil): one such read followed
		// by further reads is what the io.Reader contract allows and what a loop could mishandle
		s.withErr = append(s.withErr, len(s.withErr) == 0 && vndBool("chunkWithDeadlineError"))
	}
}

type vhClient struct {
	net    *Client
	serial *SerialClient
	s      *vhScript
	hooks  *vhHooks
	ctx    *vhCtx
}

// vhNewClient wires a client of the requested mode to the script through the public API.
func vhNewClient(mode int, s *vhScript, withHooks bool) vhClient {
	c := vhClient{s: s, ctx: vhNewCtx()}
	s.ctx = c.ctx
	var hooks ClientHooks
	if withHooks {
		c.hooks = &vhHooks{s: s}
		hooks = c.hooks
	}
	if mode == 2 {
		opts := []SerialClientOptionFunc{WithSerialReadTimeout(vhReadTimeout)}
		if withHooks {
			opts = append(opts, WithSerialHooks(hooks))
		}
		c.serial = NewSerialClient(&vhPort{s: s}, opts...)
		return c
	}
	conf := ClientConfig{
		ReadTimeout: vhReadTimeout,
		DialContextFunc: func(ctx context.Context, address string) (net.Conn, error) {
			return &vhConn{s: s}, nil
		},
		Hooks: hooks,
	}
	if mode == 0 {
		c.net = NewTCPClientWithConfig(conf)
	} else {
		c.net = NewRTUClientWithConfig(conf)
	}
	c.net.timeNow = vhNow
	if err := c.net.Connect(c.ctx, "scripted"); err != nil {
		vndAssert(false, "Connect with a working dialer succeeds")
	}
	return c
}

func (c vhClient) do(req packet.Request) (packet.Response, error) {
	if c.serial != nil {
		return c.serial.Do(c.ctx, req)
	}
	return c.net.Do(c.ctx, req)
}

func vhEqualBytes(a, b []byte) bool {
	if len(a) != len(b) {
		return false
	}
	same := true
	for i := range a {
		if a[i] != b[i] {
			same = false
		}
	}
	return same
}

//go:build verif

package modbus

import (
	"errors"

	"github.com/aldas/go-modbus-client/packet"
)

// C07 — clients return the complete reply however the transport fragments it.

// vhSpecReplyLen: reply length the specification prescribes for a request (0 when the device chooses it: FC17).
func vhSpecReplyLen(fc uint8, tcp bool, quantity int) int {
	pdu := 0
	switch fc {
	case 1, 2:
		pdu = 2 + (quantity+7)/8
	case 3, 4, 23:
		pdu = 2 + 2*quantity
	case 5, 6, 15, 16:
		pdu = 5
	default:
		return 0
	}
	if tcp {
		return 7 + pdu
	}
	return 1 + pdu + 2
}

// vhLengthFinding names the listed known finding for a request type whose ExpectedResponseLength deviates from the
// specification by exactly the listed constant.
func vhLengthFinding(fc uint8, tcp bool, delta int) string {
	switch {
	case !tcp && (fc == 1 || fc == 2 || fc == 3 || fc == 4) && delta == -1:
		return "KF-C07-1"
	case !tcp && (fc == 5 || fc == 6) && delta == -2:
		return "KF-C07-2"
	case tcp && fc == 5 && delta == -1:
		return "KF-C07-3"
	case tcp && fc == 23 && delta == 8:
		return "KF-C07-4"
	case !tcp && fc == 23 && delta == 1:
		return "KF-C07-5"
	}
	return ""
}

// VH_C07_expected_length: the length the read loop waits for equals the specification's reply length, for every
// legal quantity (symbolic).
func VH_C07_expected_length() {
	kind := vndParam("kind")
	tcp := vndParam("tcp") == 1
	unit := vndU8("unit")
	addr := vndU16("addr")
	qty := vndU16("qty")
	fc := []uint8{1, 2, 3, 4, 5, 6, 15, 16, 17, 23}[kind]
	var req packet.Request
	var err error
	quantity := int(qty)
	switch kind {
	case 0:
		if tcp {
			req, err = packet.NewReadCoilsRequestTCP(unit, addr, qty)
		} else {
			req, err = packet.NewReadCoilsRequestRTU(unit, addr, qty)
		}
	case 1:
		if tcp {
			req, err = packet.NewReadDiscreteInputsRequestTCP(unit, addr, qty)
		} else {
			req, err = packet.NewReadDiscreteInputsRequestRTU(unit, addr, qty)
		}
	case 2:
		if tcp {
			req, err = packet.NewReadHoldingRegistersRequestTCP(unit, addr, qty)
		} else {
			req, err = packet.NewReadHoldingRegistersRequestRTU(unit, addr, qty)
		}
	case 3:
		if tcp {
			req, err = packet.NewReadInputRegistersRequestTCP(unit, addr, qty)
		} else {
			req, err = packet.NewReadInputRegistersRequestRTU(unit, addr, qty)
		}
	case 4:
		if tcp {
			req, err = packet.NewWriteSingleCoilRequestTCP(unit, addr, vndBool("on"))
		} else {
			req, err = packet.NewWriteSingleCoilRequestRTU(unit, addr, vndBool("on"))
		}
	case 5:
		if tcp {
			req, err = packet.NewWriteSingleRegisterRequestTCP(unit, addr, vndBytes("v", 2, 0))
		} else {
			req, err = packet.NewWriteSingleRegisterRequestRTU(unit, addr, vndBytes("v", 2, 0))
		}
	case 6:
		coils := vndBools("coils", vndParam("p"))
		if tcp {
			req, err = packet.NewWriteMultipleCoilsRequestTCP(unit, addr, coils)
		} else {
			req, err = packet.NewWriteMultipleCoilsRequestRTU(unit, addr, coils)
		}
	case 7:
		data := vndBytes("regs", vndParam("p"), 0)
		if tcp {
			req, err = packet.NewWriteMultipleRegistersRequestTCP(unit, addr, data)
		} else {
			req, err = packet.NewWriteMultipleRegistersRequestRTU(unit, addr, data)
		}
	case 9:
		data := vndBytes("regs", vndParam("p"), 0)
		if tcp {
			req, err = packet.NewReadWriteMultipleRegistersRequestTCP(unit, addr, qty, vndU16("waddr"), data)
		} else {
			req, err = packet.NewReadWriteMultipleRegistersRequestRTU(unit, addr, qty, vndU16("waddr"), data)
		}
	default:
		vndAssume(false)
	}
	if err != nil {
		vndCover("constructor-rejects")
		return
	}
	vndCover("constructed")
	E := req.ExpectedResponseLength()
	want := vhSpecReplyLen(fc, tcp, quantity)
	if E != want {
		if id := vhLengthFinding(fc, tcp, E-want); id != "" && vndKnown(id) {
			vndKnownHit(id)
			return
		}
	}
	vndAssert(E == want, "ExpectedResponseLength equals the specification's reply length")
}

// VH_C07_fragmented: a well-formed reply, cut into `chunks` reads at case-split positions with optional empty
// timed-out reads in between, is returned complete and parsed; an exception reply becomes the typed error.
func VH_C07_fragmented() {
	kind, mode, q := vndParam("kind"), vndParam("mode"), vndParam("q")
	x := vhMakeExchange(kind, mode, q, vndParam("exc") == 1)
	s := &vhScript{reply: x.reply}
	E := x.req.ExpectedResponseLength()
	if mode == 2 {
		s.pauseEOF = vndBool("emptyReadsAreEOF")
	}
	vhFragmentation(s, len(x.reply), E, vndParam("chunks"))
	c := vhNewClient(mode, s, false)
	resp, err := c.do(x.req)
	vndCover("exchange")
	vndAssert(len(s.written) == 1 && vhEqualBytes(s.written[0], x.req.Bytes()), "exactly the request bytes are written once")
	ok := false
	if x.isExc {
		ok = resp == nil && err != nil
		if ok {
			if x.tcp {
				var te *packet.ErrorResponseTCP
				ok = errors.As(err, &te) && te.Code == x.excCode && te.Function == x.fc && te.UnitID == x.unit
			} else {
				var re *packet.ErrorResponseRTU
				ok = errors.As(err, &re) && re.Code == x.excCode && re.Function == x.fc && re.UnitID == x.unit
			}
		}
	} else {
		ok = err == nil && resp != nil && vhEqualBytes(resp.Bytes(), x.reply)
	}
	if !ok {
		// listed findings: the loop waits for a wrong number of bytes for this request type (delta fixed), or the
		// request type has no way to know the reply length (FC17)
		delta := E - x.specLen
		if id := vhLengthFinding(x.fc, x.tcp, delta); id != "" && vndKnown(id) {
			vndKnownHit(id)
			return
		}
		if x.fc == 17 && E < x.specLen && vndKnown("KF-C07-6") {
			vndKnownHit("KF-C07-6")
			return
		}
	}
	if x.isExc {
		vndAssert(ok, "exception reply is returned as an error unwrapping to the typed exception with its code")
	} else {
		vndAssert(err == nil && resp != nil, "complete well-formed reply is returned without error")
		vndAssert(ok, "returned response re-encodes to exactly the reply")
	}
}

// VH_C07_loop_shape: the structural premise of "every 3-read fragmentation of a reply is the inductive step of the
// read loop for that reply": apart from memory (the receive buffer), the loops of (*Client).do and
// (*SerialClient).do carry exactly one value - the byte count - from one iteration to the next.
func VH_C07_loop_shape() {
	vndCover("loop-shape")
	n1 := vndLoopPhis("(*github.com/aldas/go-modbus-client.Client).do")
	n2 := vndLoopPhis("(*github.com/aldas/go-modbus-client.SerialClient).do")
	vndRequire(n1 < 0 || n1 == 1, "(*Client).do read loop carries exactly the byte count")
	vndRequire(n2 < 0 || n2 == 1, "(*SerialClient).do read loop carries exactly the byte count")
}

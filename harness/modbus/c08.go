//go:build verif

package modbus

import (
	"errors"

	"github.com/aldas/go-modbus-client/packet"
)

// C08 — a request call always terminates with a classified error on transport faults.
//
// After a case-split prefix of the reply (delivered in one or two reads) the transport takes one fault.
// Termination: the loop is executed for real; when the transport has nothing more to say it lets time pass
// (vndAdvanceTime), after which the client must return on its next iteration. A client that keeps reading is cut
// off by the harness's read bound and reported through the "returned" cover being unreachable / the assertion
// "returns after the timer fired".

func vhIsClientError(err error) bool {
	var ce *ClientError
	return errors.As(err, &ce)
}

func VH_C08_fault() {
	kind, mode, q := vndParam("kind"), vndParam("mode"), vndParam("q")
	fault := vndParam("fault")
	x := vhMakeExchange(kind, mode, q, false)
	s := &vhScript{reply: x.reply, fault: fault}
	E := x.req.ExpectedResponseLength()
	if mode == 2 {
		s.flushErr = vndBool("flushFails")
	}
	// prefix of the reply that arrives before the fault (strictly shorter than what the client waits for, except for
	// the oversize fault which continues after the complete reply)
	limit := len(x.reply)
	if E < limit {
		limit = E
	}
	prefix := 0
	if fault == vhFaultOversize {
		// oversize: the reply is followed by more bytes than any frame can hold; the first read already fills the
		// client's buffer (the prefix is the part of it that is the reply)
		prefix = 0
		// either the smallest oversize reply (one byte more than a frame of this framing can hold: 260 TCP, 256 RTU)
		// or one that fills the client's buffer
		if vndBool("justOverTheLimit") {
			if x.tcp {
				s.oversizeN = 261
			} else {
				s.oversizeN = 257
			}
		}
	} else if fault != vhFaultWrite && fault != vhFaultWriteDl {
		set := vhCutSet(limit, E)
		prefix = set[vndChoice("prefix", len(set))]
	}
	if prefix > 0 {
		vhFragmentation(s, prefix, E, vndParam("chunks"))
	}
	c := vhNewClient(mode, s, false)
	resp, err := c.do(x.req)
	vndCover("returned")
	// a prefix that happens to be a complete exception frame (5/9 bytes with the high bit set) is a reply, not a fault
	if fault != vhFaultWrite && fault != vhFaultWriteDl && fault != vhFaultOversize {
		if x.tcp && prefix == 9 && x.reply[7]&0x80 != 0 {
			return
		}
		if !x.tcp && prefix == 5 && x.reply[1]&0x80 != 0 {
			return
		}
	}
	vndAssert(err != nil, "a faulted exchange never reports success")
	vndAssert(resp == nil || vndIsNilPtr(resp), "and returns no response value")
	if err == nil {
		return
	}
	switch fault {
	case vhFaultStall:
		vndAssert(vhIsClientError(err), "timeout is reported as the retryable client error")
	case vhFaultEOF:
		vndAssert(vhIsClientError(err) || prefix > 0, "closed stream with no data is reported as the retryable client error")
	case vhFaultIO:
		// (when the serial port's Flush fails as well, that second failure is what the error wraps)
		vndAssert(vhIsClientError(err) && (errors.Is(err, errVhIO) || (s.flushErr && errors.Is(err, errVhFlush))), "I/O failure is reported as the retryable client error wrapping the cause")
	case vhFaultOversize:
		vndAssert(vhIsClientError(err) && (errors.Is(err, &ErrPacketTooLong) || (s.flushErr && errors.Is(err, errVhFlush))), "oversize reply is reported as the retryable client error ErrPacketTooLong")
	case vhFaultWrite:
		vndAssert(vhIsClientError(err) && (errors.Is(err, errVhIO) || (s.flushErr && errors.Is(err, errVhFlush))), "rejected write is reported as the retryable client error wrapping the cause")
		vndAssert(len(s.reads) == 0, "nothing is read after a failed write")
	case vhFaultWriteDl:
		vndAssert(errors.Is(err, errVhIO), "write-deadline failure is reported with its cause")
		vndAssert(len(s.written) == 0 && len(s.reads) == 0, "nothing is written or read after a failed write deadline")
	case vhFaultCancel, vhFaultDeadline:
		vndAssert(errors.Is(err, c.ctx.Err()), "cancellation is reported as the context's error")
		vndAssert(!vhIsClientError(err), "the end of the caller's context is not reported as the client's own (retryable) timeout")
	}
	if mode != 2 {
		vndAssert(!s.deadlineViolation, "every read is preceded by a fresh read deadline of at most 500 microseconds")
	} else {
		vndAssert(s.flushes >= 1 || fault == vhFaultCancel || fault == vhFaultDeadline || fault == vhFaultStall, "the serial client flushes the port on failure paths")
	}
}

// VH_C08_precondition: calls on an unconnected client or with a nil request fail immediately, before any transport call;
// a context cancelled before the call is reported as such.
func VH_C08_precondition() {
	mode := vndParam("mode")
	which := vndParam("which") // 0 nil request, 1 not connected, 2 cancelled before the call
	x := vhMakeExchange(2, mode, 1, false)
	s := &vhScript{reply: x.reply, cuts: []int{len(x.reply)}, pauses: []bool{false}, paused: []bool{false}}
	c := vhNewClient(mode, s, false)
	vndCover("precondition")
	switch which {
	case 0:
		var err error
		if mode == 2 {
			_, err = c.serial.Do(c.ctx, nil)
		} else {
			_, err = c.net.Do(c.ctx, nil)
		}
		vndAssert(err != nil, "nil request fails")
		vndAssert(len(s.written) == 0 && len(s.reads) == 0, "nil request fails before any transport call")
	case 1:
		if mode == 2 {
			sc := NewSerialClient(nil)
			_, err := sc.Do(c.ctx, x.req)
			vndAssert(err != nil, "serial client without a port fails")
		} else {
			nc := NewTCPClient()
			_, err := nc.Do(c.ctx, x.req)
			vndAssert(err != nil && errors.Is(err, &ErrClientNotConnected), "unconnected client fails with ErrClientNotConnected")
			vndAssert(nc.Close() == nil, "Close on an unconnected client is a no-op")
		}
	case 2:
		c.ctx.cancel()
		resp, err := c.do(x.req)
		vndAssert(resp == nil && err != nil && errors.Is(err, c.ctx.Err()), "a context cancelled before the call is reported as the context's error")
		vndAssert(len(s.reads) == 0, "no read happens under a cancelled context")
	}
}

// VH_C08_sequence: what one call leaves behind in the client must not break the next one: after a call that ended in
// a read timeout (or another fault), a further call on the same client with a healthy transport terminates and
// returns the reply.
func VH_C08_sequence() {
	mode := vndParam("mode")
	fault := vndParam("fault")
	a := vhMakeExchange(2, mode, 1, false)
	b := vhMakeExchange(5, mode, 1, false)
	s := &vhScript{reply: a.reply, fault: fault}
	c := vhNewClient(mode, s, false)
	var err1 error
	ret1 := vndWatchdog(func() { _, err1 = c.do(a.req) })
	vndAssert(ret1, "the faulted call returns")
	vndAssert(err1 != nil, "the faulted call reports an error")
	// the transport is healthy again and answers the next request in one read
	s.reply, s.fault = b.reply, vhFaultNone
	s.cuts, s.pauses, s.paused, s.withErr = []int{len(b.reply)}, []bool{false}, []bool{false}, []bool{false}
	s.next, s.pos, s.extraReads = 0, 0, 0
	c.ctx = vhNewCtx() // the next caller brings its own, live context
	s.ctx = c.ctx
	var resp2 packet.Response
	var err2 error
	ret2 := vndWatchdog(func() { resp2, err2 = c.do(b.req) })
	vndCover("second-call")
	vndAssert(ret2, "a call after a faulted call terminates")
	if ret2 {
		vndAssert(err2 == nil && resp2 != nil && vhEqualBytes(resp2.Bytes(), b.reply), "a call after a faulted call returns the reply to its request")
	}
}

//go:build verif

package modbus

import (
	"errors"

	"github.com/aldas/go-modbus-client/packet"
)

// C19 — client hooks observe exactly the bytes sent, each chunk read and the final frame; hooks do not change the outcome.

func vhCloneScript(s *vhScript) *vhScript {
	c := &vhScript{reply: s.reply, fault: s.fault, flushErr: s.flushErr, pauseEOF: s.pauseEOF}
	c.withErr = append(c.withErr, s.withErr...)
	c.cuts = append(c.cuts, s.cuts...)
	c.pauses = append(c.pauses, s.pauses...)
	for range s.paused {
		c.paused = append(c.paused, false)
	}
	return c
}

func vhOutcomeKind(resp packet.Response, err error) int {
	if err == nil {
		return 0
	}
	var te *packet.ErrorResponseTCP
	var re *packet.ErrorResponseRTU
	var ce *ClientError
	switch {
	case errors.As(err, &te):
		return 1
	case errors.As(err, &re):
		return 2
	case errors.As(err, &ce):
		return 3
	}
	return 4
}

func VH_C19_hooks() {
	kind, mode, q := vndParam("kind"), vndParam("mode"), vndParam("q")
	fault := vndParam("fault") // 0 none, 2 EOF, 3 I/O error (after the complete or partial reply)
	x := vhMakeExchange(kind, mode, q, vndParam("exc") == 1)
	wire := x.reply
	if extra := vndParam("extra"); extra > 0 {
		// bytes that follow the reply on the wire (a late answer to an earlier request, line noise): whatever the
		// client makes of them, the hooks still see exactly what was read
		wire = append(append([]byte{}, x.reply...), vndBytes("trailing", extra, 0)...)
	}
	s := &vhScript{reply: wire, fault: fault}
	E := x.req.ExpectedResponseLength()
	upTo := len(wire)
	if fault != 0 {
		set := vhCutSet(upTo, E)
		upTo = set[vndChoice("prefix", len(set))]
	}
	if mode == 2 {
		s.pauseEOF = vndBool("emptyReadsAreEOF")
	}
	if upTo > 0 {
		vhFragmentation(s, upTo, E, vndParam("chunks"))
	}
	plain := vhCloneScript(s)
	c := vhNewClient(mode, s, true)
	resp, err := c.do(x.req)
	h := c.hooks
	vndCover("exchange")

	// BeforeWrite: exactly the encoded request, before the transport write
	vndAssert(len(h.beforeWrite) == 1, "BeforeWrite is called exactly once")
	if len(h.beforeWrite) == 1 {
		vndAssert(vhEqualBytes(h.beforeWrite[0], x.req.Bytes()), "BeforeWrite receives exactly the encoded request")
		vndAssert(h.writesSeen[0] == 0, "BeforeWrite runs before the transport write")
	}
	vndAssert(len(s.written) == 1 && vhEqualBytes(s.written[0], x.req.Bytes()), "the transport receives the same bytes")

	// AfterEachRead: once per transport read, in order, with that read's bytes, count and error
	vndAssert(len(h.afterRead) == len(s.reads), "AfterEachRead is called once per transport read")
	if len(h.afterRead) == len(s.reads) {
		for i := range s.reads {
			vndAssert(h.readsSeen[i] == i+1, "AfterEachRead runs right after its read, in order")
			vndAssert(h.afterRead[i].n == s.reads[i].n && h.afterRead[i].err == s.reads[i].err, "AfterEachRead receives the read's count and error")
			vndAssert(vhEqualBytes(h.afterRead[i].buf, s.reads[i].buf), "AfterEachRead receives exactly the bytes of that read")
		}
	}

	// BeforeParse: whenever a reply is handed to the parser, first the concatenation of everything read
	var all []byte
	for _, r := range s.reads {
		all = append(all, r.buf...)
	}
	vndAssert(len(h.beforeParse) <= 1, "BeforeParse is called at most once")
	if len(h.beforeParse) == 1 {
		vndCover("parsed")
		vndAssert(vhEqualBytes(h.beforeParse[0], all), "BeforeParse receives exactly the concatenation of the bytes read")
	}
	if err == nil {
		vndAssert(len(h.beforeParse) == 1, "a parsed reply was announced to BeforeParse first")
	}

	// installing hooks never changes the outcome
	c2 := vhNewClient(mode, plain, false)
	resp2, err2 := c2.do(x.req)
	vndAssert(vhOutcomeKind(resp, err) == vhOutcomeKind(resp2, err2), "same kind of outcome with and without hooks")
	if err == nil && err2 == nil {
		vndAssert(vhEqualBytes(resp.Bytes(), resp2.Bytes()), "same response with and without hooks")
	}
	vndAssert(len(plain.reads) == len(s.reads) && len(plain.written) == len(s.written), "same transport activity with and without hooks")
}

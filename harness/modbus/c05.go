//go:build verif

package modbus

import (
	"github.com/aldas/go-modbus-client/packet"
	"math"
)

// C05 — fields extracted via the request builder equal the device's memory contents.
//
// Fields live at base+offset (base symbolic over the whole address space, offsets case-split from a set that
// straddles the 125-register limit), on 2 servers x 2 unit ids (unit ids symbolic, distinct). Every (server, unit)
// has its own symbolic memory image. Each produced request is answered as the specification requires from the image
// of the device it addresses (unit, start and quantity are read back from the ENCODED packet), parsed with the real
// parser and extracted with BuilderRequest.ExtractFields. The expected value of a field is the decoding of its
// device's image directly at the field's address (through the accessors, whose correctness is C04).

const vhImageRegs = 136

var vhOffsets = []int{0, 1, 3, 124}

func vhRegisterField(i int, class int, base uint16, units [2]uint8) (Field, int, int) {
	f := Field{Name: []string{"f0", "f1", "f2", "f3"}[i]}
	// the first field is on server 0 / unit 0 without loss of generality (servers and unit ids are interchangeable
	// symbols: the code under test only compares them for equality)
	si, ui := 0, 0
	off := vhOffsets[0]
	if vndParam("same") == 1 {
		// every field on the same device and at the same address (aliases of the same registers)
	} else if vndParam("same") == 2 {
		// every field on the same device, field i at the i-th offset of the set (0, 1, 3, 124): with a long first field
		// the later ones are nested inside it
		off = vhOffsets[i]
	} else {
		if i > 0 {
			si = vndChoice("server", 2)
			ui = vndChoice("unitidx", 2)
		}
		off = vhOffsets[vndChoice("offset", len(vhOffsets))]
	}
	f.ServerAddress = vhServers[si]
	f.UnitID = units[ui]
	f.Address = base + uint16(off)
	f.ByteOrder = packet.ByteOrder(vndU8("byteorder"))
	switch class {
	case 0:
		f.Type = FieldTypeUint16
	case 1:
		f.Type = FieldTypeUint32
	case 2:
		f.Type = FieldTypeFloat64
	case 3:
		f.Type = FieldTypeString
		f.Length = uint8(vndParam("strlen"))
	case 5:
		f.Type = FieldTypeBit
		f.Bit = vndU8("bit")
		vndAssume(f.Bit <= 15)
	case 7:
		f.Type = FieldTypeInt8
		f.FromHighByte = vndBool("high")
	case 8:
		f.Type = FieldTypeInt32
	case 9:
		f.Type = FieldTypeUint64
	case 10:
		f.Type = FieldTypeInt16
	case 11:
		f.Type = FieldTypeInt64
	case 12:
		f.Type = FieldTypeFloat32
	case 13:
		f.Type = FieldTypeByte
		f.FromHighByte = vndBool("high")
	case 14:
		f.Type = FieldTypeUint8
		f.FromHighByte = vndBool("high")
	}
	return f, si, ui
}

// vhDecodeField: the value of a field according to the documentation of the field types and byte orders, computed
// from the device's memory image with integer arithmetic only (no library accessor is used): registers are
// big-endian on the wire; LowWordFirst reverses the order of the registers of a multi-register value; LittleEndian
// reverses the bytes of the (word-ordered) value; byte order 0 means the default BigEndianHighWordFirst; strings take
// their characters low byte first when the order has the BigEndian flag and stop at the first NUL.
func vhDecodeField(f Field, mem []byte, regOff int) interface{} {
	order := f.ByteOrder
	if order == 0 {
		order = packet.BigEndianHighWordFirst
	}
	k := vhFieldSize(f)
	if f.Type == FieldTypeString {
		out := ""
		for i := 0; i < int(f.Length); i++ {
			c := mem[2*regOff+i]
			if order&packet.BigEndian != 0 {
				c = mem[2*regOff+(i^1)]
			}
			if c == 0 {
				break
			}
			out += string(rune(c))
		}
		return out
	}
	var b [8]byte
	for r := 0; r < k; r++ {
		src := r
		if order&packet.LowWordFirst != 0 {
			src = k - 1 - r
		}
		b[2*r], b[2*r+1] = mem[2*(regOff+src)], mem[2*(regOff+src)+1]
	}
	v := uint64(0)
	for i := 0; i < 2*k; i++ {
		j := i
		if order&packet.LittleEndian != 0 && k > 1 {
			j = 2*k - 1 - i
		}
		v = v<<8 | uint64(b[j])
	}
	switch f.Type {
	case FieldTypeBit:
		return (uint16(v)>>f.Bit)&1 == 1
	case FieldTypeByte, FieldTypeUint8:
		if f.FromHighByte {
			return uint8(v >> 8)
		}
		return uint8(v)
	case FieldTypeInt8:
		if f.FromHighByte {
			return int8(v >> 8)
		}
		return int8(v)
	case FieldTypeUint16:
		return uint16(v)
	case FieldTypeInt16:
		return int16(v)
	case FieldTypeUint32:
		return uint32(v)
	case FieldTypeInt32:
		return int32(v)
	case FieldTypeUint64:
		return v
	case FieldTypeInt64:
		return int64(v)
	case FieldTypeFloat32:
		return math.Float32frombits(uint32(v))
	case FieldTypeFloat64:
		return math.Float64frombits(v)
	}
	return nil
}

func vhSameValue(a, b interface{}) bool {
	// float results are compared by bit pattern (NaN payloads included)
	switch x := a.(type) {
	case float64:
		y, ok := b.(float64)
		return ok && vndFloat64bits(x) == vndFloat64bits(y)
	case float32:
		y, ok := b.(float32)
		return ok && vndFloat32bits(x) == vndFloat32bits(y)
	}
	return vndDeepEqual(a, b)
}

func VH_C05_extract() {
	k := vndParam("k")
	target := vndParam("target") // 4 FC3-TCP, 5 FC3-RTU, 6 FC4-TCP, 7 FC4-RTU
	lenient := vndParam("lenient") == 1
	trunc := vndParam("trunc") // registers missing at the end of every reply (0 = conforming device)
	classes := []int{vndParam("c0"), vndParam("c1"), vndParam("c2"), vndParam("c3")}
	base := vndU16("base")
	vndAssume(int(base)+vhImageRegs <= 65536)
	units := [2]uint8{vndU8("unit0"), vndU8("unit1")}
	vndAssume(units[0] != units[1])
	var images [2][2][]byte
	for s := 0; s < 2; s++ {
		for u := 0; u < 2; u++ {
			images[s][u] = vndBytes("memory", 2*vhImageRegs, 0)
		}
	}
	var fields Fields
	var where [][2]int
	for i := 0; i < k; i++ {
		f, si, ui := vhRegisterField(i, classes[i], base, units)
		fields = append(fields, f)
		where = append(where, [2]int{si, ui})
	}
	reqs, err := vhSplitTarget(target, fields)
	vndAssert(err == nil, "valid register fields are batched without error")
	if err != nil {
		return
	}
	vndCover("batched")
	seen := make([]int, k)
	for _, r := range reqs {
		fc, unit, start, qty := vhDecodeRequest(target, r)
		si := 0
		if r.ServerAddress == vhServers[1] {
			si = 1
		}
		ui := 0
		if unit == units[1] {
			ui = 1
		} else {
			vndAssert(unit == units[0], "request addresses a unit id of one of its fields")
		}
		so := vndConcretize(start - int(base))
		q := vndConcretize(qty)
		vndAssert(so >= 0 && so+q <= vhImageRegs, "request window lies inside the modelled memory")
		for _, f := range r.Fields {
			vndAssert(int(f.Address) >= start && int(f.Address)-start+vhFieldSize(f) <= q, "the request asks for every register of every field attached to it")
		}
		m := q - trunc
		if m < 1 {
			m = 1
		}
		payload := images[si][ui][2*so : 2*(so+m)]
		// the device's reply, as the specification lays it out
		var frame []byte
		tcp := target%2 == 0
		if tcp {
			rb := r.Request.Bytes()
			n := 3 + 2*m
			frame = append([]byte{rb[0], rb[1], 0, 0, byte(n >> 8), byte(n), unit, fc, byte(2 * m)}, payload...)
		} else {
			frame = append([]byte{unit, fc, byte(2 * m)}, payload...)
			crc := packet.CRC16(frame)
			frame = append(frame, byte(crc), byte(crc>>8))
		}
		var resp packet.Response
		var perr error
		if tcp {
			resp, perr = packet.ParseTCPResponse(frame)
		} else {
			resp, perr = packet.ParseRTUResponse(frame)
		}
		vndAssert(perr == nil, "the device's reply parses")
		if perr != nil {
			return
		}
		vals, xerr := r.ExtractFields(resp, lenient)
		// which of the request's fields reach beyond the m registers that arrived
		short := 0
		for _, f := range r.Fields {
			if int(f.Address)-start+vhFieldSize(f) > m {
				short++
			}
		}
		if short > 0 && !lenient {
			vndCover("strict-short")
			vndAssert(xerr != nil && len(vals) == 0, "strict mode: a reply too short for some field fails the extraction as a whole")
			for i, f := range fields {
				for _, rf := range r.Fields {
					if rf.Name == f.Name {
						seen[i]++
					}
				}
			}
			continue
		}
		if short > 0 {
			vndCover("lenient-short")
			vndAssert(xerr != nil, "lenient mode: a short reply is reported through the error")
		} else {
			vndAssert(xerr == nil, "extraction of a complete reply succeeds")
		}
		vndAssert(len(vals) == len(r.Fields), "every field of the request is returned")
		for _, v := range vals {
			for i, f := range fields {
				if v.Field.Name != f.Name {
					continue
				}
				seen[i]++
				vndAssert(vndDeepEqual(v.Field, f), "value is attached to the field's own definition")
				reaches := int(f.Address)-start+vhFieldSize(f) > m
				if reaches {
					vndAssert(v.Error != nil, "exactly the unreachable fields are marked as failed")
					continue
				}
				vndAssert(v.Error == nil, "reachable fields are not marked as failed")
				// expected: decode the device's own memory directly at the field's address
				full, nerr := packet.NewRegisters(images[where[i][0]][where[i][1]], base)
				vndAssert(nerr == nil, "oracle window")
				want, werr := f.ExtractFrom(full)
				vndAssert(werr == nil, "oracle decode")
				vndCover("value-compared")
				vndAssert(vhSameValue(v.Value, want), "extracted value equals the device's memory decoded at the field's address")
				// and, for single-field lists (decoding does not depend on what else is batched), the same against a
				// decoder that uses no library code (documented meaning of types and byte orders)
				if k == 1 {
					vndAssert(vhSameValue(v.Value, vhDecodeField(f, images[where[i][0]][where[i][1]], int(f.Address-base))), "extracted value equals the documented decoding of the device's memory")
				}
			}
		}
	}
	for i := range fields {
		vndAssert(seen[i] == 1, "every field is reported exactly once")
	}
}

// VH_C13_extract_pure (property C13): extracting a field from a Registers view changes neither the payload nor how
// later reads on the same view decode, and repeating the extraction gives the same result.
func VH_C13_extract_pure() {
	class := vndParam("class")
	const n = 4
	payload := vndBytes("payload", 2*n, 0)
	start := vndU16("start")
	vndAssume(int(start)+n <= 65536)
	regs, err := packet.NewRegisters(payload, start)
	vndAssert(err == nil, "view over whole registers")
	if vndBool("setDefaultOrder") {
		regs.WithByteOrder(packet.ByteOrder(vndU8("defaultOrder")))
	}
	snap := append([]byte{}, payload...)
	probe := func() [4]uint64 {
		a, _ := regs.Uint16(start)
		b, _ := regs.Uint32(start)
		c, _ := regs.Uint64(start)
		d, _ := regs.Int16(start + 3)
		return [4]uint64{uint64(a), uint64(b), c, uint64(uint16(d))}
	}
	before := probe()
	f, _, _ := vhRegisterField(1, class, start, [2]uint8{1, 2})
	f.Address = start + uint16(vndChoice("fieldoffset", n))
	v1, e1 := f.ExtractFrom(regs)
	vndCover("extracted")
	vndAssert(vhEqualBytes(payload, snap), "payload bytes unchanged by the extraction")
	after := probe()
	vndAssert(before == after, "later reads on the same view decode exactly as before the extraction")
	v2, e2 := f.ExtractFrom(regs)
	vndAssert((e1 == nil) == (e2 == nil), "repeating the extraction gives the same outcome")
	if e1 == nil && e2 == nil {
		vndAssert(vhSameValue(v1, v2), "repeating the extraction gives the same value")
	}
}

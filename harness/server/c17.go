//go:build verif

package server

import (
	"context"
	"errors"
	"io"
	"net"
	"time"
)

// C17 — (claimed scope) server lifecycle facts that are quantified over callback configurations or are sequential:
// the serve loop is executed with each connection's goroutine run to completion at its spawn point (one schedule),
// against an in-harness listener and connections.

func vhNop() {}

var errVhAccept = errors.New("listener closed")
var errVhReject = errors.New("connection rejected")

type vhSrvCtx struct {
	done chan struct{}
	err  error
}

func (c *vhSrvCtx) Deadline() (time.Time, bool)       { return time.Time{}, false }
func (c *vhSrvCtx) Done() <-chan struct{}             { return c.done }
func (c *vhSrvCtx) Err() error                        { return c.err }
func (c *vhSrvCtx) Value(key interface{}) interface{} { return nil }

type vhSrvConn struct {
	request            []byte
	reads              int
	closed             int
	written            [][]byte
	staleWriteDeadline bool
	srv                *Server // when set: Write checks the busy-flag protocol of the connection that owns this conn
	idleAtWrite        bool
}

func (c *vhSrvConn) Read(p []byte) (int, error) {
	c.reads++
	if c.reads == 1 {
		return copy(p, c.request), nil
	}
	return 0, io.EOF
}
func (c *vhSrvConn) Write(b []byte) (int, error) {
	if c.srv != nil {
		// graceful shutdown closes every connection whose busy flag is clear: the flag must cover the reply write
		for k := range c.srv.activeConnections {
			if k.conn == net.Conn(c) && !k.isBeingHandled.Load() {
				c.idleAtWrite = true
			}
		}
	}
	cp := make([]byte, len(b))
	copy(cp, b)
	c.written = append(c.written, cp)
	return len(b), nil
}
func (c *vhSrvConn) Close() error                      { c.closed++; return nil }
func (c *vhSrvConn) LocalAddr() net.Addr               { return nil }
func (c *vhSrvConn) RemoteAddr() net.Addr              { return nil }
func (c *vhSrvConn) SetDeadline(t time.Time) error     { return nil }
func (c *vhSrvConn) SetReadDeadline(t time.Time) error { return nil }
func (c *vhSrvConn) SetWriteDeadline(t time.Time) error {
	// the deadline for writing the reply must lie in the future at the moment the reply is about to be written
	if !t.After(time.Now()) {
		c.staleWriteDeadline = true
	}
	return nil
}

type vhListener struct {
	conns    []*vhSrvConn
	next     int
	closed   int
	before   func() // runs just before Accept fails (lets the harness set the shutdown flag "concurrently")
	onAccept func() // runs at the start of every Accept call
}

func (l *vhListener) Accept() (net.Conn, error) {
	vndSettle() // natively: let the previous connection's goroutine finish (symbolically it already has)
	if l.onAccept != nil {
		l.onAccept()
	}
	if l.next < len(l.conns) {
		c := l.conns[l.next]
		l.next++
		return c, nil
	}
	if l.before != nil {
		l.before()
	}
	return nil, errVhAccept
}
func (l *vhListener) Close() error   { l.closed++; return nil }
func (l *vhListener) Addr() net.Addr { return nil }

func VH_C17_serve() {
	cfg := vndParam("callbacks") // bit 0 OnServe, 1 OnError, 2 OnAccept, 3 OnClose
	nconn := vndParam("conns")
	hmode := vndParam("handler") // 0 conforming, 3 panics
	shutdown := vndBool("shutdownBeforeAcceptFails")
	s := &Server{}
	l := &vhListener{}
	var rejects []bool
	for i := 0; i < nconn; i++ {
		l.conns = append(l.conns, &vhSrvConn{srv: s, request: []byte{0, byte(i + 1), 0, 0, 0, 6, 1, 3, 0, 10, 0, 2}})
		rejects = append(rejects, vndBool("reject"))
	}
	l.before = func() {
		if shutdown {
			s.isShutdown.Store(true)
		}
	}
	served, errorsSeen, accepts, closes := 0, 0, 0, 0
	acceptArgOK := true
	if cfg&1 != 0 {
		s.OnServeFunc = func(addr net.Addr) { served++ }
	}
	if cfg&2 != 0 {
		s.OnErrorFunc = func(err error) { errorsSeen++ }
	}
	if cfg&4 != 0 {
		s.OnAcceptConnFunc = func(ctx context.Context, remoteAddr net.Addr, connectionCount uint64) error {
			// connections are handled to completion one after the other here, so none is live at accept time
			if connectionCount != 1 {
				acceptArgOK = false
			}
			i := accepts
			accepts++
			if rejects[i] {
				return errVhReject
			}
			return nil
		}
	}
	if cfg&8 != 0 {
		s.OnCloseConnFunc = func(ctx context.Context, remoteAddr net.Addr, isServerShutdown bool) { closes++ }
	}
	ctx := &vhSrvCtx{done: make(chan struct{})}
	err := s.Serve(ctx, l, &vhHandler{mode: hmode})
	vndSettle()
	vndCover("serve-returned")

	if shutdown {
		vndAssert(err == ErrServerClosed, "after shutdown the serve call returns ErrServerClosed")
	} else {
		vndAssert(err == errVhAccept, "without shutdown the listener's error is returned")
	}
	vndAssert(l.closed == 1, "the listener is closed exactly once when serve returns")
	if cfg&1 != 0 {
		vndAssert(served == 1, "OnServeFunc is called once")
	}
	vndAssert(acceptArgOK, "the accept callback is told the number of live connections plus the new one")
	accepted := 0
	for i, c := range l.conns {
		rejected := cfg&4 != 0 && rejects[i]
		vndAssert(c.closed == 1, "every connection (accepted or rejected) is closed exactly once")
		vndAssert(!c.staleWriteDeadline, "the reply's write deadline is set from the time the reply is written (a slow handler does not use it up)")
		vndAssert(!c.idleAtWrite, "a connection is marked as being handled while its reply is written (Shutdown closes connections that are not)")
		if rejected {
			vndCover("rejected")
			vndAssert(c.reads == 0 && len(c.written) == 0, "a rejected connection is never served")
			continue
		}
		accepted++
		if hmode == 0 || hmode == 4 {
			vndAssert(len(c.written) == 1 && len(c.written[0]) == 12 && c.written[0][1] == c.request[1], "an accepted connection's request is answered on that connection")
		} else {
			vndCover("handler-panicked")
			vndAssert(len(c.written) == 0, "a panicking handler sends nothing")
		}
	}
	if cfg&4 != 0 {
		vndAssert(accepts == nconn, "the accept callback runs once per incoming connection")
	}
	if cfg&8 != 0 {
		vndCover("close-callback-set")
		vndAssert(closes == accepted, "the close callback runs exactly once for every accepted connection, whatever the other callbacks are")
	}
	vndAssert(s.activeConnectionCount.Load() == 0 && len(s.activeConnections) == 0, "no connection is left in the accounting when all have ended")
	if s.mu.TryLock() {
		s.mu.Unlock()
	} else {
		vndAssert(false, "the server mutex is free when serve returns")
	}
}

// VH_C17_shutdown: Shutdown closes exactly the idle connections and reports success only when none is busy.
func VH_C17_shutdown() {
	n := vndParam("conns")
	s := &Server{}
	l := &vhListener{}
	s.listener = l
	var conns []*vhSrvConn
	var cs []*connection
	var busy []bool
	anyBusy := false
	for i := 0; i < n; i++ {
		vc := &vhSrvConn{}
		c := &connection{conn: vc}
		b := vndBool("busy")
		c.isBeingHandled.Store(b)
		if b {
			anyBusy = true
		}
		s.trackConn(c, true)
		conns, cs, busy = append(conns, vc), append(cs, c), append(busy, b)
	}
	ctx := &vhSrvCtx{done: make(chan struct{})}
	if anyBusy {
		// a busy connection never finishes in this sequential model: the caller's context ends the wait
		ctx.err = context.DeadlineExceeded
		close(ctx.done)
	}
	err := s.Shutdown(ctx)
	vndCover("shutdown-returned")
	vndAssert(s.isShutdown.Load(), "the shutdown flag is set")
	vndAssert(l.closed == 1, "the listener is closed")
	if anyBusy {
		vndCover("busy")
		vndAssert(err != nil, "Shutdown does not report success while a request is still being handled")
	} else {
		vndAssert(err == nil, "Shutdown succeeds when every connection is idle")
	}
	for i := range conns {
		if busy[i] {
			vndAssert(conns[i].closed == 0, "a connection whose request is being handled is not closed")
		} else {
			vndAssert(conns[i].closed == 1, "an idle connection is closed")
			_, still := s.activeConnections[cs[i]]
			vndAssert(!still, "a closed connection is removed from the set")
		}
	}
	if s.mu.TryLock() {
		s.mu.Unlock()
	} else {
		vndAssert(false, "the server mutex is free when Shutdown returns")
	}
}

// VH_C17_race: the serve loop, the per-connection goroutines and a Shutdown issued from another goroutine (at a point
// chosen by the harness: when the k-th Accept is called) are run one after the other with the executor's
// happens-before race detection on: two accesses of server code to the same memory from different goroutines, at
// least one a write, that the server's own synchronisation (mutex, atomics, channels) does not order are a data race
// in some real schedule. Natively replayed with real goroutines under the Go race detector.
func VH_C17_race() {
	cfg := vndParam("callbacks")
	nconn := vndParam("conns")
	at := vndParam("at") // the Accept call (0-based) during which Shutdown is started; nconn = when Accept is about to fail; -1 = from the OnServeFunc callback; -2 = before the serve call
	s := &Server{}
	l := &vhListener{}
	for i := 0; i < nconn; i++ {
		l.conns = append(l.conns, &vhSrvConn{request: []byte{0, byte(i + 1), 0, 0, 0, 6, 1, 3, 0, 10, 0, 2}})
	}
	sctx := &vhSrvCtx{done: make(chan struct{})}
	if cfg&1 != 0 {
		s.OnServeFunc = func(addr net.Addr) {
			// at == -1: the "server is listening" callback is the signal on which another goroutine shuts the server
			// down (this is how the library's own test waits for the server to start)
			if at == -1 {
				go s.Shutdown(sctx)
				vndSettle()
			}
		}
	}
	if cfg&2 != 0 {
		s.OnErrorFunc = func(err error) {}
	}
	if cfg&4 != 0 {
		s.OnAcceptConnFunc = func(ctx context.Context, remoteAddr net.Addr, connectionCount uint64) error { return nil }
	}
	if cfg&8 != 0 {
		s.OnCloseConnFunc = func(ctx context.Context, remoteAddr net.Addr, isServerShutdown bool) {}
	}
	calls := 0
	l.onAccept = func() {
		if calls == at {
			go s.Shutdown(sctx)
			vndSettle()
		}
		calls++
	}
	vndRaceDetect()
	if at == -2 {
		// Shutdown from another goroutine before the server has got to serve at all
		go s.Shutdown(sctx)
		vndSettle()
	}
	ctx := &vhSrvCtx{done: make(chan struct{})}
	err := s.Serve(ctx, l, &vhHandler{mode: 0})
	vndSettle()
	vndCover("raced")
	if at < 0 {
		vndAssert(err == ErrServerClosed, "a server that was shut down before or while starting returns ErrServerClosed from the serve call")
		vndAssert(l.closed >= 1, "and its listener is closed")
	}
	vndRaceCheck()
}

//go:build verif

package server

import (
	"context"
)

// C15 — the TCP assembler answers each request once, in order and only when complete, whatever the segmentation.

// vhStreamFrame builds request frame number i of the stream; kind: 0 FC3 read (12 bytes), 1 FC6 write (12 bytes),
// 2 FC16 write of 2 registers (17 bytes), 3 a function the library does not support (0x2B, 12 bytes),
// 4 FC3 with an out-of-range quantity (12 bytes), 5 / 6 FC16 writes of 123 / 110 registers (260 / 233 bytes), 7 FC23 (21 bytes), 8 not Modbus TCP (last frame only). Header fields, addresses and values are symbolic.
func vhStreamFrame(kind int) []byte {
	th, tl := vndU8("tidhi"), vndU8("tidlo")
	unit := vndU8("unit")
	b := vndBytes("body", 9, 0)
	switch kind {
	case 0:
		q := vndU8("qty")
		vndAssume(q >= 1 && q <= 125)
		return []byte{th, tl, 0, 0, 0, 6, unit, 3, b[0], b[1], 0, q}
	case 1:
		return []byte{th, tl, 0, 0, 0, 6, unit, 6, b[0], b[1], b[2], b[3]}
	case 2:
		return []byte{th, tl, 0, 0, 0, 11, unit, 16, b[0], b[1], 0, 2, 4, b[2], b[3], b[4], b[5]}
	case 3:
		return []byte{th, tl, 0, 0, 0, 6, unit, 0x2B, b[0], b[1], b[2], b[3]}
	case 4:
		return []byte{th, tl, 0, 0, 0, 6, unit, 3, b[0], b[1], 0xFF, b[2]}
	case 7:
		// FC23 read/write multiple registers: read 1..125, write 2 registers (21 bytes)
		q := vndU8("qty")
		vndAssume(q >= 1 && q <= 125)
		return []byte{th, tl, 0, 0, 0, 15, unit, 23, b[0], b[1], 0, q, b[2], b[3], 0, 2, 4, b[4], b[5], b[6], b[7]}
	case 8:
		// a frame that is not Modbus TCP (protocol id other than 0, or a body truncated to the bare function code): answered with an exception addressed to what its
		// own header says, after which the assembler drops what it has buffered - so it is only used as the last frame
		if vndBool("truncatedToFunctionCode") {
			// header length 2: a body cut down to the bare function code (8 bytes in all)
			fc := vndU8("fc")
			vndAssume(fc >= 1 && fc <= 127)
			return []byte{th, tl, 0, 0, 0, 2, unit, fc}
		}
		pid := vndU8("protocol")
		vndAssume(pid != 0)
		return []byte{th, tl, 0, pid, 0, 6, unit, 3, b[0], b[1], 0, 1}
	case 5, 6:
		// the largest write request there is (FC16, 123 registers: a 260-byte frame), or one of 110 registers (233
		// bytes): with another request behind it more than one maximal frame is buffered at once
		n := 123
		if kind == 6 {
			n = 110
		}
		f := []byte{th, tl, 0, 0, byte((7 + 2*n) >> 8), byte(7 + 2*n), unit, 16, b[0], b[1], 0, byte(n), byte(2 * n)}
		return append(f, vndBytes("registers", 2*n, 0)...)
	}
	vndAssume(false)
	return nil
}

func VH_C15_segmentation() {
	m := vndParam("frames")
	reads := vndParam("reads")
	kinds := []int{vndParam("k0"), vndParam("k1"), vndParam("k2")}
	var frames [][]byte
	var stream []byte
	var ends []int
	for i := 0; i < m; i++ {
		f := vhStreamFrame(kinds[i])
		frames = append(frames, f)
		stream = append(stream, f...)
		ends = append(ends, len(stream))
	}
	// reference: every frame handed whole to a fresh assembler
	var ref [][]byte
	for i := 0; i < m; i++ {
		a := &ModbusTCPAssembler{Handler: &vhHandler{}}
		r, _ := a.ReceiveRead(context.Background(), frames[i], len(frames[i]))
		vndAssert(r != nil, "a whole request frame is answered")
		ref = append(ref, r)
	}
	// the same stream cut into `reads` reads at symbolic (case-split) positions
	h := &vhHandler{}
	asm := &ModbusTCPAssembler{Handler: h}
	var out []byte
	pos := 0
	for r := 0; r < reads; r++ {
		end := len(stream)
		if r < reads-1 {
			end = pos + vndChoice("chunk", len(stream)-pos+1)
			if kinds[m-1] == 8 {
				// a frame that is not Modbus TCP has no trustworthy length: it is delivered in one piece
				limit := 0
				if m > 1 {
					limit = ends[m-2]
				}
				vndAssume(end <= limit)
			}
		}
		if end == pos {
			continue // an empty read never reaches the assembler (the connection loop skips it)
		}
		chunk := make([]byte, end-pos)
		copy(chunk, stream[pos:end])
		reply, closeConn := asm.ReceiveRead(context.Background(), chunk, len(chunk))
		vndAssert(!closeConn, "the assembler does not ask to close the connection")
		out = append(out, reply...)
		pos = end
		// what must have been sent by now: the replies of exactly the frames that are complete
		var want []byte
		for i := 0; i < m; i++ {
			if ends[i] <= pos {
				want = append(want, ref[i]...)
			}
		}
		vndCover("read")
		vndAssert(len(out) == len(want), "after every read exactly the complete requests have been answered (nothing early, nothing missing)")
		if len(out) == len(want) {
			same := true
			for i := range out {
				if out[i] != want[i] {
					same = false
				}
			}
			vndAssert(same, "replies equal, in order, the replies each request gets when it arrives whole")
		}
	}
	vndCover("stream-done")
	handled := 0
	for i := 0; i < m; i++ {
		if kinds[i] <= 2 || (kinds[i] >= 5 && kinds[i] <= 7) {
			handled++
		}
	}
	vndAssert(h.calls == handled, "the handler is called exactly once per valid request")
}

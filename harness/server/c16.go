//go:build verif

package server

import (
	"context"
	"errors"

	"github.com/aldas/go-modbus-client/packet"
)

// C15 / C16 — the TCP assembler: replies are well-formed and addressed to their request (C16); each request is
// answered once, in order and only when complete, whatever the segmentation (C15).

var errVhHandler = errors.New("handler failed")

// vhResp is what a conforming handler returns: a well-formed ADU echoing the request's header.
type vhResp struct{ b []byte }

func (r vhResp) FunctionCode() uint8 { return r.b[7] }
func (r vhResp) Bytes() []byte       { return r.b }

// vhHandler: mode 0 conforming response, 1 typed error as handlers build it (packet.NewErrorParseTCP(code, msg)),
// 2 generic error, 3 panic, 4 conforming response after a long time.
type vhHandler struct {
	mode  int
	code  uint8
	calls int
	seen  [][]byte
}

func (h *vhHandler) Handle(ctx context.Context, req packet.Request) (packet.Response, error) {
	h.calls++
	rb := req.Bytes()
	cp := make([]byte, len(rb))
	copy(cp, rb)
	h.seen = append(h.seen, cp)
	switch h.mode {
	case 1:
		return nil, packet.NewErrorParseTCP(h.code, "handler says no")
	case 2:
		return nil, errVhHandler
	case 3:
		panic("handler panics")
	case 4:
		vndAdvanceTime() // a slow handler: time passes (longer than the server's write timeout) before it answers
	}
	// echo: transaction id, protocol 0, length 6, unit, function, then the 4 bytes after the function code
	out := []byte{rb[0], rb[1], 0, 0, 0, 6, rb[6], rb[7], 0, 0, 0, 0}
	if len(rb) >= 12 {
		copy(out[8:], rb[8:12])
	}
	return vhResp{b: out}, nil
}

var vhSupported = []uint8{1, 2, 3, 4, 5, 6, 15, 16, 17, 23}

func vhIsSupported(fc uint8) bool {
	for _, s := range vhSupported {
		if s == fc {
			return true
		}
	}
	return false
}

// vhQuantityOutOfRange: the frame is long enough to hold the fixed part of a supported request but its
// quantity / count / coil value is outside the specification's limits.
func vhQuantityOutOfRange(f []byte) bool {
	if len(f) < 12 {
		return false
	}
	q := int(f[10])<<8 | int(f[11])
	switch f[7] {
	case 1, 2:
		return q < 1 || q > 2000
	case 3, 4:
		return q < 1 || q > 125
	case 5:
		return q != 0xFF00 && q != 0
	case 15:
		return q < 1 || q > 1968
	case 16:
		return q < 1 || q > 123
	case 23:
		if q < 1 || q > 125 {
			return true
		}
		if len(f) >= 16 {
			w := int(f[14])<<8 | int(f[15])
			return w < 1 || w > 121
		}
	}
	return false
}

func vhWellFormedReply(reply, frame []byte, label string) {
	n := len(reply)
	vndAssert(n >= 8, label+": reply has an MBAP header, unit id and function code")
	if n < 8 {
		return
	}
	vndAssert(reply[2] == 0 && reply[3] == 0, label+": protocol id 0")
	vndAssert(int(reply[4])<<8|int(reply[5]) == n-6, label+": length field equals the number of bytes that follow")
	vndAssert(reply[0] == frame[0] && reply[1] == frame[1], label+": transaction id equals the request's")
	vndAssert(reply[6] == frame[6], label+": unit id equals the request's")
	if reply[7]&0x80 != 0 {
		vndAssert(n == 9, label+": exception replies are 9 bytes long")
		vndAssert(reply[7] == frame[7]|0x80, label+": exception carries the request's function code with the high bit set")
	}
}

func VH_C16_reply() {
	L := vndParam("L")
	hmode := vndParam("handler")
	frame := vndBytes("frame", L, 0)
	// a request frame: valid MBAP header (protocol id 0, length field consistent), function code 1..127
	vndAssume(frame[2] == 0 && frame[3] == 0)
	vndAssume(int(frame[4])<<8|int(frame[5]) == L-6)
	fc := frame[7]
	vndAssume(fc >= 1 && fc <= 127)
	h := &vhHandler{mode: hmode, code: vndU8("handlercode")}
	asm := &ModbusTCPAssembler{Handler: h}
	reply, closeConn := asm.ReceiveRead(context.Background(), frame, L)
	vndCover("received")
	vndAssert(!closeConn, "a request never makes the assembler ask for the connection to be closed")
	vndAssert(reply != nil, "a complete request frame is answered")
	if reply == nil {
		return
	}
	vhWellFormedReply(reply, frame, "reply")
	isExc := len(reply) >= 8 && reply[7]&0x80 != 0
	if L == 8 && h.calls == 0 && isExc && len(reply) == 9 && reply[8] == 0 && vndKnown("KF-C16-1") {
		// listed finding (same root as KF-C18-1): a request whose PDU is 2 bytes (Read Server ID, or any other
		// function without data) is classified as not-Modbus: it is answered with exception code 0 instead of being
		// served (supported function) or refused with code 01 (unsupported function)
		vndKnownHit("KF-C16-1")
		return
	}
	if !vhIsSupported(fc) {
		vndCover("unsupported-function")
		vndAssert(isExc && len(reply) == 9 && reply[8] == 1, "unsupported function is answered with exception code 01")
		vndAssert(h.calls == 0, "the handler is not called for an unsupported function")
		return
	}
	if vhQuantityOutOfRange(frame) {
		vndCover("out-of-range")
		vndAssert(isExc && len(reply) == 9 && reply[8] == 3, "out-of-range quantity or value is answered with exception code 03")
		vndAssert(h.calls == 0, "the handler is not called for an out-of-range request")
		return
	}
	if h.calls == 0 {
		vndCover("malformed")
		vndAssert(isExc, "a malformed request is answered with an exception")
		return
	}
	vndCover("handled")
	vndAssert(h.calls == 1, "the handler is called exactly once")
	switch hmode {
	case 0:
		vndAssert(!isExc && len(reply) == 12, "the handler's response is sent as the reply")
	case 1:
		vndAssert(isExc && len(reply) == 9 && reply[8] == h.code, "a typed handler error becomes an exception with the handler's code")
	case 2:
		vndAssert(isExc && len(reply) == 9, "a generic handler error becomes an exception")
	}
}

#!/usr/bin/env python3
"""Writes the task text handed to a seed-writing sub-agent: tools/seed_prompts.py <worktree-root> <ID>...
The text contains only the property (from properties.jsonl), the one-line ideas of earlier seeds for it, and the worktree path."""
import json, os, sys
root = sys.argv[1]
ids = sys.argv[2:]
base = '''You are helping to evaluate a verification framework by writing ONE realistic, subtle regression ("seeded defect") for a Go library (aldas/go-modbus-client: Modbus TCP/RTU client library with packet encoders/parsers, CRC16, register extraction, request builder and a simple TCP server).

Your working copy is a scratch git worktree at: @ROOT@/@ID@   (work ONLY there; do NOT read or touch /verif, /repo or any other directory under /tmp; do not look for any verification harness anywhere).
Environment for every shell call: export GOFLAGS=-mod=mod GOPROXY=off GOSUMDB=off GOTOOLCHAIN=local   (no network). Tests: `cd @ROOT@/@ID@ && go test -vet=off -count=1 ./...`
Do NOT use `git stash` (the stash is shared with other worktrees of the same repository and other people use it at the same time): to test without your change, copy the changed files aside (cp f f.mine), `git checkout -- f`, run the test, then copy them back.

The property that must get broken (this text is all you know about what is being verified):

@PROP@

Earlier attempts already used these ideas, so pick a DIFFERENT site and a different kind of mistake:
@PREV@

Task:
1. Read the relevant library code in the worktree.
2. Make a SMALL source change to the library (non-test .go files only) that BREAKS this property, such that:
   - the library still compiles and the ENTIRE existing test suite still passes (`go test -vet=off -count=1 ./...` in the worktree - run it and confirm);
   - the breakage needs something specific to manifest: a value in the MIDDLE of a range (not a maximum/minimum/boundary), a rare combination of two options, a three-step sequence, a particular pair of cut positions, a specific relationship between two fields of the input, or two cooperating sites that each look fine alone. NOT something ordinary use would expose at once and not a blatant change. Think of a plausible mistake a maintainer could make in a refactoring or an "optimisation". Avoid plain integer wrap-around at the extremes of a type (already tried many times).
3. Write a demonstration that FAILS with your change and PASSES on the unchanged code: a new Go test file named zz_seed_demo_test.go in the right package directory, containing one test whose name starts with TestSeedDemo. Verify both directions yourself (with the change: fails; library change reverted: passes; then restore the change).
4. Leave in @ROOT@/@ID@/_seed/ :
   - patch.diff : output of `git diff` for the LIBRARY change only (not the demo test), applicable with `git apply` from the repository root;
   - demo_test.go : a copy of your demonstration test file;
   - meta.json : valid JSON {"property": "@ID@", "summary": "...", "needs_to_manifest": "...", "demo_cmd": "...", "verified": "..."}
Report back a 5-line summary.
'''
here = os.path.dirname(os.path.dirname(os.path.abspath(__file__)))
for l in open(os.path.join(here, 'properties.jsonl')):
    p = json.loads(l); pid = p['id']
    if pid not in ids:
        continue
    prev = []
    for r in '123456789':
        f = os.path.join(here, 'seeded', f'{pid}-{r}', 'meta.json')
        if os.path.exists(f):
            try: prev.append('- ' + json.load(open(f)).get('summary', '')[:300].replace('"', "'"))
            except Exception: pass
    prop = f"{p['id']}: {p['title']}\n\nSTATEMENT: {p['statement']}\n\nQUANTIFIED OVER: {p['quantifier']['text']}\n\nRELEVANT FILES: {', '.join(p['anchors']['files'])}\n"
    open(os.path.join(root, pid + '.prompt.txt'), 'w').write(
        base.replace('@ROOT@', root).replace('@ID@', pid).replace('@PROP@', prop).replace('@PREV@', '\n'.join(prev) or '(none)'))
print(sorted(os.listdir(root)))

#!/bin/bash
# tools/seed_run.sh <seed-dir> <check-id>...
# Confirms a seeded change (applies, existing suite passes, demonstration fails with it and passes without it),
# runs the listed checks against /repo with the change applied, and undoes the change. Prints a summary.
sd="$1"; shift
export GOFLAGS=-mod=mod GOPROXY=off GOSUMDB=off GOTOOLCHAIN=local
demo_line=$(head -1 "$sd/demo_test.go")
pkgdir=$(python3 - "$sd" <<'PY'
import json,sys,re,os
sd=sys.argv[1]
first=open(os.path.join(sd,'demo_test.go')).readline()
src=open(os.path.join(sd,'demo_test.go')).read()
m=re.search(r'^package (\w+)',src,re.M)
pkg=m.group(1) if m else 'modbus'
d={'packet':'packet','packet_test':'packet','server':'server','server_test':'server','modbus':'.','modbus_test':'.'}.get(pkg,'.')
print(d)
PY
)
cd /repo || exit 2
if ! git diff --quiet; then echo "seed_run: /repo is not clean"; exit 2; fi
demo=/repo/$pkgdir/zz_seed_demo_test.go
cleanup() { git -C /repo checkout -- . ; rm -f "$demo"; }
trap cleanup EXIT
# demonstration on the unchanged tree
cp "$sd/demo_test.go" "$demo"
if go test -vet=off -count=1 -run 'Seed|seed|Demo' ./$pkgdir > /tmp/seed_clean.log 2>&1; then echo "demo on unchanged tree: PASS (as required)"; else echo "demo on unchanged tree: FAIL (seed rejected)"; tail -5 /tmp/seed_clean.log; exit 3; fi
rm -f "$demo"
if ! git apply "$sd/patch.diff"; then echo "patch does not apply"; exit 3; fi
git diff --stat | tail -1
if go build ./... && go test -vet=off -count=1 ./... > /tmp/seed_suite.log 2>&1; then echo "existing suite with the change: PASS (as required)"; else echo "existing suite with the change: FAIL (seed rejected)"; tail -5 /tmp/seed_suite.log; exit 3; fi
cp "$sd/demo_test.go" "$demo"
if go test -vet=off -count=1 -run 'Seed|seed|Demo' ./$pkgdir > /tmp/seed_mut.log 2>&1; then echo "demo with the change: PASS (seed rejected: does not demonstrate)"; exit 3; else echo "demo with the change: FAIL (as required)"; fi
rm -f "$demo"
for c in "$@"; do
  cp /verif/evidence/$c.json /tmp/seed_ev_$c.json 2>/dev/null
  out=$(timeout 2400 /verif/check "$c" 2>&1)
  rc=$?
  echo "check $c: exit=$rc  $(echo "$out" | grep -c '^VIOLATION') violation line(s)"
  echo "$out" | grep -E "^  violated|^VIOLATION|INCONCLUSIVE" | cut -c1-260 | head -4
  cp /tmp/seed_ev_$c.json /verif/evidence/$c.json 2>/dev/null
done

#!/bin/sh
# tools/mutate.sh <file-relative-to-repo> <sed-expression> <check-id>...
# Applies a one-line mutation to a scratch copy of /repo (outside /repo and /verif), runs the listed checks
# against it with VERIF_REPO, prints their verdict lines and removes the copy. Evidence files of the real tree
# are preserved (VERIF_DIR-local evidence is written to a scratch dir).
f="$1"; expr="$2"; shift 2
scr=$(mktemp -d /tmp/vmut.XXXXXX)
cp -r /repo/. "$scr/"
sed -i "$expr" "$scr/$f"
( cd "$scr" && git diff --stat | tail -1 )
ev=$(mktemp -d /tmp/vmutev.XXXXXX)
for c in "$@"; do
  cp /verif/evidence/$c.json "$ev/" 2>/dev/null
  VERIF_REPO="$scr" timeout 1500 /verif/check "$c" 2>&1 | grep -E "VIOLATION|KNOWN-FINDING|INCONCLUSIVE|exit=" | cut -c1-220 | head -8
  cp "$ev/$c.json" /verif/evidence/ 2>/dev/null
done
rm -rf "$scr" "$ev" /verif/replays/*/ 2>/dev/null

#!/usr/bin/env python3
"""Regenerates /verif/MANIFEST.json from tools/manifest_table.json (one entry per property)."""
import json, os
here = os.path.dirname(os.path.abspath(__file__))
root = os.path.dirname(here)
tab = json.load(open(os.path.join(here, "manifest_table.json")))
props = [json.loads(l)["id"] for l in open(os.path.join(root, "properties.jsonl"))]
checks, na = [], []
for pid in props:
    e = tab.get(pid)
    if e is None or e.get("not_applicable"):
        na.append({"property_id": pid, "reason": (e or {}).get("not_applicable", "no check built yet in this session (engine exists; harness pending)")})
        continue
    c = {
        "property_id": pid,
        "quick_cmd": f"./check {pid} --tier quick",
        "evidence_file": f"evidence/{pid}.json",
        "replay_cmd_template": "./check --replay {path}",
        "engine": "vsym",
        "level_claimed": {"category": "model_checking", "text": e["text"], "design_ref": e.get("design_ref", "DESIGN.md §5 " + pid)},
        "level_note": e["note"],
        "technique": e.get("technique", "bounded symbolic execution of the real code's go/ssa form; each assertion and each implicit panic check decided by an SMT solver (z3) over all symbolic inputs within the stated bounds; counterexamples replayed natively"),
    }
    if e.get("thorough", True):
        c["thorough_cmd"] = f"./check {pid} --tier thorough"
    checks.append(c)
m = {
    "version": 1,
    "setup_cmd": "cd engine && GOFLAGS=-mod=mod GOPROXY=off GOSUMDB=off GOTOOLCHAIN=local go build -o ../bin/vsym ./cmd/vsym",
    "hooks": {
        "guard": "verif",
        "enable": "harness files live in /verif/harness and are injected as /repo/<pkg>/zz_verif_*.go with go/packages Overlay (symbolic run) and `go test -tags verif -overlay` (native replay); nothing is committed to /repo behind the guard",
        "baseline_off_cmd": "cd /repo && go test -vet=off -count=1 -timeout 25m ./...",
        "source_commits": [],
        "add_only": True,
    },
    "engines": [{"name": "vsym", "path": "engine", "serves_properties": [c["property_id"] for c in checks],
                 "kind_free_text": "hand-written symbolic executor over golang.org/x/tools/go/ssa (v0.29.0) emitting SMT-LIB2 (QF_BV + a little FP) to z3 5.1.0, cross-checked against z3 4.8.12 and cvc5 1.0; counterexamples replayed natively via go test -overlay"}],
    "checks": checks,
    "not_applicable": na,
    "notes": "Exit codes of ./check: 0 = every obligation discharged within the bounds; 1 = reproduced violation (VIOLATION line); 2 = inconclusive (unsupported construct, unwinding budget, solver unknown, engine/native mismatch) - never reported as success. Known findings are listed in known_findings.json.",
}
json.dump(m, open(os.path.join(root, "MANIFEST.json"), "w"), indent=1)
print("checks:", [c["property_id"] for c in checks], "n/a:", [n["property_id"] for n in na])
